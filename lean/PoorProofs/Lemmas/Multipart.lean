import PoorModel.Multipart
import PoorProofs.Lemmas.HeaderValue
import PoorProofs.Lemmas.Query
import PoorProofs.Props.C14
import PoorProofs.Props.C18
/-
Lemmas for property C08: the in-memory line reader and the content loop of one part.
-/
namespace Poor.Multipart
open Poor

/-! ### `lfTake` -/

theorem lfTake_prefix (k : Nat) (s : Bytes) : lfTake k s ++ s.drop (lfTake k s).length = s := by
  fun_induction lfTake k s <;> simp_all

theorem lfTake_length_le (k : Nat) (s : Bytes) : (lfTake k s).length ≤ k := by
  fun_induction lfTake k s <;> simp <;> omega

theorem lfTake_ne_nil (k : Nat) (s : Bytes) (hk : 0 < k) (hs : s ≠ []) : lfTake k s ≠ [] := by
  cases k with
  | zero => omega
  | succ k =>
    cases s with
    | nil => exact absurd rfl hs
    | cons x xs => simp only [lfTake]; split <;> simp

/-- the line does not run past the first LF -/
theorem lfTake_stops (k : Nat) (a b : Bytes) (ha : LF ∉ a) :
    (lfTake k (a ++ LF :: b)).length ≤ a.length + 1 := by
  induction a generalizing k with
  | nil =>
    cases k with
    | zero => simp [lfTake]
    | succ k => simp [lfTake]
  | cons x xs ih =>
    cases k with
    | zero => simp [lfTake]
    | succ k =>
      have hx : x ≠ LF := by intro e; apply ha; simp [e]
      simp only [List.cons_append, lfTake, hx, if_false, List.length_cons]
      have := ih k (fun h => ha (by simp [h]))
      omega

/-- with room enough the line is everything up to and including the first LF -/
theorem lfTake_line (k : Nat) (a b : Bytes) (ha : LF ∉ a) (hk : a.length + 1 ≤ k) :
    lfTake k (a ++ LF :: b) = a ++ [LF] := by
  induction a generalizing k with
  | nil =>
    cases k with
    | zero => omega
    | succ k => simp [lfTake]
  | cons x xs ih =>
    cases k with
    | zero => simp at hk
    | succ k =>
      have hx : x ≠ LF := by intro e; apply ha; simp [e]
      simp only [List.cons_append, lfTake, hx, if_false, List.cons.injEq, true_and]
      exact ih k (fun h => ha (by simp [h])) (by simp at hk; omega)

/-- ... and all of a string without LF -/
theorem lfTake_all (k : Nat) (a : Bytes) (ha : LF ∉ a) (hk : a.length ≤ k) : lfTake k a = a := by
  induction a generalizing k with
  | nil => cases k <;> simp [lfTake]
  | cons x xs ih =>
    cases k with
    | zero => simp at hk
    | succ k =>
      have hx : x ≠ LF := by intro e; apply ha; simp [e]
      simp only [lfTake, hx, if_false, List.cons.injEq, true_and]
      exact ih k (fun h => ha (by simp [h])) (by simp at hk; omega)

/-! ### `rstrip`, `stripEnd` -/

theorem rstrip_prefix (l : Bytes) : rstrip l <+: l := by
  unfold rstrip
  have h := List.dropWhile_suffix isWs (l := l.reverse)
  have := List.reverse_prefix.mpr h
  simpa using this

theorem rstrip_append_ws (l : Bytes) (w : UInt8) (hw : isWs w = true) : rstrip (l ++ [w]) = rstrip l := by
  unfold rstrip
  simp [List.dropWhile_cons, hw]

theorem rstrip_self (l : Bytes) (x : UInt8) (hx : isWs x = false) : rstrip (l ++ [x]) = l ++ [x] := by
  unfold rstrip
  simp [List.dropWhile_cons, hx]

theorem endsWith_iff (l suf : Bytes) : endsWith l suf = true ↔ ∃ t, l = t ++ suf := by
  unfold endsWith
  rw [List.isSuffixOf_iff_suffix]
  constructor
  · rintro ⟨t, ht⟩; exact ⟨t, ht.symm⟩
  · rintro ⟨t, ht⟩; exact ⟨t, ht.symm⟩

/-- a line is its text plus the terminator that was split off -/
theorem stripEnd_split (l : Bytes) : (stripEnd l).1 ++ (stripEnd l).2.1 = l := by
  unfold stripEnd
  split
  · rename_i h
    obtain ⟨t, rfl⟩ := (endsWith_iff _ _).1 h
    simp [List.dropLast_append_cons]
  · split
    · rename_i h
      obtain ⟨t, rfl⟩ := (endsWith_iff _ _).1 h
      simp
    · split
      · rename_i h
        obtain ⟨t, rfl⟩ := (endsWith_iff _ _).1 h
        simp
      · simp

theorem stripEnd_delim (l : Bytes) :
    (stripEnd l).2.1 = [CR, LF] ∨ (stripEnd l).2.1 = [LF] ∨ (stripEnd l).2.1 = [CR] ∨ (stripEnd l).2.1 = [] := by
  unfold stripEnd
  split
  · exact Or.inl rfl
  · split
    · exact Or.inr (Or.inl rfl)
    · split
      · exact Or.inr (Or.inr (Or.inl rfl))
      · exact Or.inr (Or.inr (Or.inr rfl))

theorem stripEnd_crlf (t : Bytes) : stripEnd (t ++ [CR, LF]) = (t, [CR, LF], true) := by
  unfold stripEnd
  have hs : endsWith (t ++ [CR, LF]) [CR, LF] = true := (endsWith_iff _ _).2 ⟨t, rfl⟩
  rw [if_pos hs]
  simp [List.dropLast_append_cons]

/-- without a line end the text does not end in CR -/
theorem stripEnd_nodelim (l : Bytes) (h : (stripEnd l).2.1 = []) :
    (stripEnd l).1 = l ∧ l.getLast? ≠ some CR := by
  unfold stripEnd at h ⊢
  split at h
  · cases h
  · split at h
    · cases h
    · split at h
      · cases h
      · rename_i h1 h2 h3
        simp only [h1, h2, h3, Bool.false_eq_true, if_false, true_and]
        intro hl
        apply h3
        apply (endsWith_iff _ _).2
        have hne : l ≠ [] := by intro h0; simp [h0] at hl
        refine ⟨l.dropLast, ?_⟩
        have := List.dropLast_concat_getLast hne
        rw [List.getLast?_eq_some_getLast hne] at hl
        rw [← this, Option.some.inj hl]
        simp

/-! ### infixes -/

theorem infix_of_infix_concat {l x : Bytes} {y : UInt8} (h : l <:+: x ++ [y]) (hy : y ∉ l) : l <:+: x := by
  obtain ⟨s, t, e⟩ := h
  cases t.eq_nil_or_concat with
  | inl ht =>
    subst ht
    simp only [List.append_nil] at e
    cases l.eq_nil_or_concat with
    | inl hl => subst hl; exact ⟨x, [], by simp⟩
    | inr hl =>
      obtain ⟨l', z, rfl⟩ := hl
      have e' : (s ++ l') ++ [z] = x ++ [y] := by simpa using e
      have hz := List.append_inj_right' e' rfl
      simp only [List.cons.injEq, and_true] at hz
      exact absurd (by simp [hz]) hy
  | inr ht =>
    obtain ⟨t', z, rfl⟩ := ht
    have e' : (s ++ l ++ t') ++ [z] = x ++ [y] := by simpa using e
    have := List.append_inj_left' e' rfl
    exact ⟨s, t', this⟩

/-! ### the content loop on the in-memory reader -/

/-- what the parser needs of a delimiter `nb = "--" ++ boundary` -/
structure BOk (nb : Bytes) : Prop where
  dash : nb.take 2 = [DASH, DASH]
  last : ∃ p x, nb = p ++ [x] ∧ isWs x = false
  nocr : CR ∉ nb
  nolf : LF ∉ nb
  short : nb.length + 4 ≤ LINE_CAP

theorem take2_append (nb r : Bytes) (h : nb.take 2 = [DASH, DASH]) : (nb ++ r).take 2 = [DASH, DASH] := by
  match nb, h with
  | a :: b :: t, h => simpa using h

theorem split_first_lf (l : Bytes) (h : LF ∈ l) : ∃ a b, l = a ++ LF :: b ∧ LF ∉ a := by
  induction l with
  | nil => simp at h
  | cons x xs ih =>
    by_cases hx : x = LF
    · exact ⟨[], xs, by simp [hx], by simp⟩
    · have : LF ∈ xs := by
        rcases List.mem_cons.mp h with e | e
        · exact absurd e.symm hx
        · exact e
      obtain ⟨a, b, e, hp⟩ := ih this
      refine ⟨x :: a, b, by simp [e], ?_⟩
      intro hm
      rcases List.mem_cons.mp hm with e' | e'
      · exact hx e'.symm
      · exact hp e'

/-- the delimiter is not found inside the content, nor across its end -/
theorem no_hit (nb c post l : Bytes) (hb : BOk nb) (hno : ¬ nb <:+: c) (hpost : post <:+: c ++ [CR, LF])
    (hl : l <+: post) (x : Bytes) (hx : nb <+: x) (hr : x <+: l) : False := by
  apply hno
  have h1 : nb <:+: c ++ [CR, LF] := ((hx.trans hr).trans hl).isInfix.trans hpost
  have h2 : nb <:+: (c ++ [CR]) ++ [LF] := by simpa using h1
  have h3 := infix_of_infix_concat h2 hb.nolf
  exact infix_of_infix_concat h3 hb.nocr

theorem readLines_step (rd : Rd R) (nb lb : Bytes) (fuel : Nat) (st : PS) (r r' : R) (x : UInt8) (xs : Bytes)
    (h : rd.line (some LINE_CAP) r = (x :: xs, r')) :
    readLines rd nb lb (fuel + 1) st r =
      (let l := x :: xs
       let l1 := if st.delim = [CR] then CR :: l else l
       let d0 := if st.delim = [CR] then [] else st.delim
       if l1.take 2 = [DASH, DASH] ∧ st.lfend = true ∧ rstrip l1 = nb then (st.out, .next, r')
       else if l1.take 2 = [DASH, DASH] ∧ st.lfend = true ∧ rstrip l1 = lb then (st.out, .last, r')
       else readLines rd nb lb fuel (absorb st l1 d0) r') := by
  simp only [readLines, h]


theorem lfLine_cap (s : Bytes) :
    lfReader.line (some LINE_CAP) s = (lfTake LINE_CAP s, s.drop (lfTake LINE_CAP s).length) := rfl

/-- the delimiter line itself -/
theorem at_boundary (nb mark eol tail c : Bytes) (hb : BOk nb)
    (hmark : mark = [] ∨ mark = [DASH, DASH]) (heol : eol = [CR, LF] ∨ (eol = [] ∧ tail = []))
    (st : PS) (fuel : Nat) (hout : st.out = c) (hd : st.delim = [CR, LF]) (hlf : st.lfend = true) :
    readLines lfReader nb (nb ++ [DASH, DASH]) (fuel + 1) st (nb ++ mark ++ eol ++ tail)
      = (c, if mark = [] then Stop.next else Stop.last, tail) := by
  obtain ⟨p, x, hnb, hx⟩ := hb.last
  have hnbne : nb ≠ [] := by rw [hnb]; simp
  have hmlf : LF ∉ nb ++ mark := by
    intro h
    rcases List.mem_append.1 h with h | h
    · exact hb.nolf h
    · rcases hmark with rfl | rfl <;> simp [DASH, LF] at h
  have hmlen : mark.length ≤ 2 := by rcases hmark with rfl | rfl <;> simp
  -- the line that is read
  have hline : ∃ l, lfTake LINE_CAP (nb ++ mark ++ eol ++ tail) = l ∧
      (nb ++ mark ++ eol ++ tail).drop l.length = tail ∧ l = nb ++ mark ++ eol := by
    rcases heol with rfl | ⟨rfl, rfl⟩
    · refine ⟨nb ++ mark ++ [CR, LF], ?_, ?_, rfl⟩
      · have e : nb ++ mark ++ [CR, LF] ++ tail = (nb ++ mark ++ [CR]) ++ LF :: tail := by simp
        rw [e, lfTake_line _ _ _ (by
          intro h
          rcases List.mem_append.1 h with h | h
          · exact hmlf h
          · simp [CR, LF] at h) (by
            have := hb.short
            simp only [List.length_append, List.length_cons, List.length_nil]
            omega)]
        simp
      · simp
    · refine ⟨nb ++ mark, ?_, ?_, by simp⟩
      · simp only [List.append_nil]
        exact lfTake_all _ _ hmlf (by
          have := hb.short
          simp only [List.length_append]; omega)
      · simp
  obtain ⟨l, hl1, hl2, hl3⟩ := hline
  have hlne : l ≠ [] := by rw [hl3]; simp [hnbne]
  obtain ⟨y, ys, hys⟩ : ∃ y ys, l = y :: ys := by
    cases l with
    | nil => exact absurd rfl hlne
    | cons y ys => exact ⟨y, ys, rfl⟩
  have hrd : lfReader.line (some LINE_CAP) (nb ++ mark ++ eol ++ tail) = (y :: ys, tail) := by
    rw [lfLine_cap, hl1, hl2, hys]
  rw [readLines_step lfReader nb _ fuel st _ tail y ys hrd]
  have hdcr : st.delim ≠ [CR] := by rw [hd]; decide
  simp only [hdcr, if_false, ← hys]
  have htake : l.take 2 = [DASH, DASH] := by
    rw [hl3, List.append_assoc]; exact take2_append nb _ hb.dash
  have hrs : rstrip l = nb ++ mark := by
    have hlast : ∃ q z, nb ++ mark = q ++ [z] ∧ isWs z = false := by
      rcases hmark with rfl | rfl
      · exact ⟨p, x, by simpa using hnb, hx⟩
      · exact ⟨nb ++ [DASH], DASH, by simp, by decide⟩
    obtain ⟨q, z, hq, hz⟩ := hlast
    rw [hl3]
    rcases heol with rfl | ⟨rfl, rfl⟩
    · have e : nb ++ mark ++ [CR, LF] = (nb ++ mark ++ [CR]) ++ [LF] := by simp
      rw [e, rstrip_append_ws _ LF (by decide), rstrip_append_ws _ CR (by decide), hq]
      exact rstrip_self q z hz
    · simp only [List.append_nil]
      rw [hq]; exact rstrip_self q z hz
  rcases hmark with rfl | rfl
  · simp only [List.append_nil] at hrs
    rw [if_pos ⟨htake, hlf, hrs⟩, hout]
    simp
  · have hne : rstrip l ≠ nb := by
      rw [hrs]; intro h
      have := congrArg List.length h
      simp at this
    rw [if_neg (fun h => hne h.2.2), if_pos ⟨htake, hlf, hrs⟩, hout]
    simp


theorem getLast?_append_ne_nil {α : Type} (a b : List α) (hb : b ≠ []) : (a ++ b).getLast? = b.getLast? := by
  rw [List.getLast?_append]
  cases h : b.getLast? with
  | none => exact absurd (List.getLast?_eq_none_iff.1 h) hb
  | some x => rfl

/-- the content loop: invariant over everything before the delimiter line -/
theorem extract_aux (nb mark eol tail c : Bytes) (hb : BOk nb) (hno : ¬ nb <:+: c)
    (hmark : mark = [] ∨ mark = [DASH, DASH]) (heol : eol = [CR, LF] ∨ (eol = [] ∧ tail = [])) :
    ∀ (n : Nat) (st : PS) (pre post : Bytes) (fuel : Nat),
      post.length ≤ n → n < fuel → pre ++ post = c ++ [CR, LF] → st.out ++ st.delim = pre →
      (post = [] → st.delim = [CR, LF] ∧ st.lfend = true) →
      (st.delim = [] → st.out.getLast? ≠ some CR) →
      (st.delim = [CR, LF] ∨ st.delim = [LF] ∨ st.delim = [CR] ∨ st.delim = []) →
      readLines lfReader nb (nb ++ [DASH, DASH]) fuel st (post ++ (nb ++ mark ++ eol ++ tail))
        = (c, if mark = [] then Stop.next else Stop.last, tail) := by
  intro n
  induction n with
  | zero =>
    intro st pre post fuel hlen hfuel hsplit hinv hend _ _
    have hp : post = [] := List.length_eq_zero_iff.mp (by omega)
    subst hp
    obtain ⟨hd, hlf⟩ := hend rfl
    obtain ⟨f, rfl⟩ : ∃ f, fuel = f + 1 := ⟨fuel - 1, by omega⟩
    have hout : st.out = c := by
      rw [hd] at hinv
      simp only [List.append_nil] at hsplit
      rw [hsplit] at hinv
      exact List.append_cancel_right hinv
    simpa using at_boundary nb mark eol tail c hb hmark heol st f hout hd hlf
  | succ n ih =>
    intro st pre post fuel hlen hfuel hsplit hinv hend hcr hdel
    by_cases hp : post = []
    · subst hp
      obtain ⟨hd, hlf⟩ := hend rfl
      obtain ⟨f, rfl⟩ : ∃ f, fuel = f + 1 := ⟨fuel - 1, by omega⟩
      have hout : st.out = c := by
        rw [hd] at hinv
        simp only [List.append_nil] at hsplit
        rw [hsplit] at hinv
        exact List.append_cancel_right hinv
      simpa using at_boundary nb mark eol tail c hb hmark heol st f hout hd hlf
    · obtain ⟨f, rfl⟩ : ∃ f, fuel = f + 1 := ⟨fuel - 1, by omega⟩
      obtain ⟨rest2, hrest2⟩ : ∃ r, r = nb ++ mark ++ eol ++ tail := ⟨_, rfl⟩
      rw [← hrest2]
      -- post ends with the LF of the structural CRLF
      have hlfmem : LF ∈ post := by
        have hne : post ≠ [] := hp
        have h1 : (pre ++ post).getLast? = some LF := by rw [hsplit]; simp
        rw [getLast?_append_ne_nil _ _ hne] at h1
        exact List.mem_of_getLast? h1
      obtain ⟨a, b, hab, ha⟩ := split_first_lf post hlfmem
      obtain ⟨l, hl⟩ : ∃ l, l = lfTake LINE_CAP (post ++ rest2) := ⟨_, rfl⟩
      have hlen1 : l.length ≤ post.length := by
        have := lfTake_stops LINE_CAP a (b ++ rest2) ha
        rw [hl, hab]
        simp only [List.append_assoc, List.cons_append, List.length_append, List.length_cons] at this ⊢
        omega
      have hlne : l ≠ [] := by
        rw [hl]; exact lfTake_ne_nil LINE_CAP (post ++ rest2) (by decide) (by simp [hp])
      have hpre := lfTake_prefix LINE_CAP (post ++ rest2)
      rw [← hl] at hpre
      have hpost : post = l ++ post.drop l.length := by
        have h1 : l = (post ++ rest2).take l.length := by
          conv => rhs; rw [← hpre]
          simp
        rw [List.take_append_of_le_length hlen1] at h1
        conv => lhs; rw [← List.take_append_drop l.length post]
        rw [← h1]
      have hdrop : (post ++ rest2).drop l.length = post.drop l.length ++ rest2 :=
        List.drop_append_of_le_length hlen1
      obtain ⟨y, ys, hys⟩ : ∃ y ys, l = y :: ys := by
        cases hc : l with
        | nil => exact absurd hc hlne
        | cons y ys => exact ⟨y, ys, rfl⟩
      have hrd : lfReader.line (some LINE_CAP) (post ++ rest2) = (y :: ys, post.drop l.length ++ rest2) := by
        rw [lfLine_cap, ← hl, hdrop, hys]
      rw [readLines_step lfReader nb _ f st _ _ y ys hrd]
      simp only [← hys]
      -- no false delimiter
      have hpostinfix : post <:+: c ++ [CR, LF] := ⟨pre, [], by simpa using hsplit⟩
      have hlpre : l <+: post := ⟨post.drop l.length, hpost.symm⟩
      have hnohit : ∀ z, nb <+: z → ¬ (((if st.delim = [CR] then CR :: l else l).take 2 = [DASH, DASH]) ∧
          st.lfend = true ∧ rstrip (if st.delim = [CR] then CR :: l else l) = z) := by
        intro z hz ⟨h1, _, h3⟩
        by_cases hdc : st.delim = [CR]
        · simp only [hdc, if_true] at h1
          cases hls : l with
          | nil => exact hlne hls
          | cons q qs => rw [hls] at h1; simp [CR, DASH] at h1
        · simp only [hdc, if_false] at h3
          have : z <+: l := by rw [← h3]; exact rstrip_prefix l
          exact no_hit nb c post l hb hno hpostinfix hlpre z hz this
      rw [if_neg (hnohit nb (List.prefix_refl _)), if_neg (hnohit (nb ++ [DASH, DASH]) (List.prefix_append _ _))]
      -- the next state
      obtain ⟨l1, hl1⟩ : ∃ x, x = (if st.delim = [CR] then CR :: l else l) := ⟨_, rfl⟩
      obtain ⟨d0, hd0⟩ : ∃ x, x = (if st.delim = [CR] then [] else st.delim) := ⟨_, rfl⟩
      rw [← hl1, ← hd0]
      subst hrest2
      have hl1ne : l1 ≠ [] := by rw [hl1]; split <;> simp [hlne]
      have hcons : st.out ++ d0 ++ l1 = pre ++ l := by
        rw [hl1, hd0, ← hinv]
        by_cases hdc : st.delim = [CR]
        · simp [hdc]
        · simp [hdc]
      have hsplit' : (pre ++ l) ++ post.drop l.length = c ++ [CR, LF] := by
        rw [List.append_assoc, ← hpost]; exact hsplit
      apply ih (absorb st l1 d0) (pre ++ l) (post.drop l.length) f
      · have : 0 < l.length := List.length_pos_iff.mpr hlne
        simp only [List.length_drop]; omega
      · omega
      · exact hsplit'
      · simp only [absorb]
        rw [List.append_assoc, stripEnd_split, hcons]
      · intro hnil
        -- l is the end of post: the structural CRLF has just been read
        have hpl : pre ++ l = c ++ [CR, LF] := by simpa [hnil] using hsplit'
        have hends : ∃ t, l1 = t ++ [CR, LF] := by
          cases hl2 : l.reverse with
          | nil => exact absurd (by simpa using hl2) hlne
          | cons z1 zs =>
            have hlz : l = zs.reverse ++ [z1] := by
              have := congrArg List.reverse hl2; simpa using this
            cases zs with
            | nil =>
              -- l = [LF]: the CR was carried over
              simp only [List.reverse_nil, List.nil_append] at hlz
              have hz1 : pre ++ [z1] = (c ++ [CR]) ++ [LF] := by rw [← hlz]; simpa using hpl
              have hz : z1 = LF := by
                have := List.append_inj_right' hz1 rfl; simpa using this
              have hprecr : pre = c ++ [CR] := List.append_inj_left' hz1 rfl
              have hdcr : st.delim = [CR] := by
                rcases hdel with h | h | h | h
                · rw [h] at hinv
                  have : (st.out ++ [CR, LF]).getLast? = (c ++ [CR]).getLast? := by rw [hinv, hprecr]
                  simp [CR, LF] at this
                · rw [h] at hinv
                  have : (st.out ++ [LF]).getLast? = (c ++ [CR]).getLast? := by rw [hinv, hprecr]
                  simp [CR, LF] at this
                · exact h
                · exfalso
                  rw [h] at hinv
                  simp only [List.append_nil] at hinv
                  apply hcr h
                  rw [hinv, hprecr]; simp
              refine ⟨[], ?_⟩
              rw [hl1, hdcr, hlz, hz]; simp
            | cons z2 zs' =>
              have hlz' : l = zs'.reverse ++ [z2, z1] := by rw [hlz]; simp
              have hz1 : (pre ++ zs'.reverse) ++ [z2, z1] = c ++ [CR, LF] := by rw [← hpl, hlz']; simp
              have hzz : [z2, z1] = [CR, LF] := List.append_inj_right' hz1 rfl
              refine ⟨(if st.delim = [CR] then [CR] else []) ++ zs'.reverse, ?_⟩
              rw [hl1, hlz', hzz]
              split <;> simp
        obtain ⟨t, ht⟩ := hends
        simp only [absorb, ht, stripEnd_crlf]
        exact ⟨trivial, trivial⟩
      · intro hdn
        simp only [absorb] at hdn ⊢
        obtain ⟨h1, h2⟩ := stripEnd_nodelim l1 hdn
        rw [h1, getLast?_append_ne_nil _ _ hl1ne]
        exact h2
      · exact stripEnd_delim l1


/-! ### header blocks -/

open Poor.Headers (utf8enc utf8dec)

theorem lfLine_none_line (a rest : Bytes) (ha : LF ∉ a) :
    lfReader.line none (a ++ LF :: rest) = (a ++ [LF], rest) := by
  show lfLine none (a ++ LF :: rest) = _
  unfold lfLine
  simp only [Option.getD_none]
  rw [lfTake_line _ a rest ha (by simp)]
  simp

theorem all_of_dropWhile_nil (p : α → Bool) (l : List α) (h : l.dropWhile p = []) : ∀ x ∈ l, p x = true := by
  induction l with
  | nil => simp
  | cons a t ih =>
    simp only [List.dropWhile_cons] at h
    split at h
    · rename_i ha
      intro x hx
      rcases List.mem_cons.1 hx with rfl | hx
      · exact ha
      · exact ih h x hx
    · cases h

theorem strip_ne_nil (l : Bytes) (h : ∃ b ∈ l, isWs b = false) : strip l ≠ [] := by
  obtain ⟨b, hb, hw⟩ := h
  unfold strip rstrip
  intro he
  have h1 : (List.dropWhile isWs l).reverse.dropWhile isWs = [] := by
    have := congrArg List.reverse he; simpa using this
  have h1' := all_of_dropWhile_nil _ _ h1
  have h2 : ∀ x ∈ l.dropWhile isWs, isWs x = true := fun x hx => h1' x (by simpa using hx)
  -- the first non-blank byte survives dropWhile
  have : b ∈ l.dropWhile isWs := by
    clear h1 he h2 h1'
    induction l with
    | nil => simp at hb
    | cons x xs ih =>
      simp only [List.dropWhile_cons]
      split
      · rename_i hx
        rcases List.mem_cons.1 hb with rfl | hb'
        · rw [hw] at hx; cases hx
        · exact ih hb'
      · exact hb
  have := h2 b this
  rw [hw] at this; cases this

theorem strip_crlf : strip [CR, LF] = [] := by decide

/-- the header block of a part: every line is read whole, the blank line ends the block -/
theorem headerLines_block (ts : List Bytes) (rest : Bytes) (fuel : Nat)
    (h : ∀ t ∈ ts, LF ∉ t ∧ ∃ b ∈ t, isWs b = false) (hfuel : ts.length < fuel) :
    headerLines lfReader fuel (ts.flatMap (· ++ [CR, LF]) ++ ([CR, LF] ++ rest))
      = (ts.map (· ++ [CR, LF]) ++ [[CR, LF]], rest) := by
  induction ts generalizing fuel with
  | nil =>
    obtain ⟨f, rfl⟩ : ∃ f, fuel = f + 1 := ⟨fuel - 1, by simp at hfuel; omega⟩
    have hrd : lfReader.line none ([CR] ++ LF :: rest) = ([CR] ++ [LF], rest) :=
      lfLine_none_line [CR] rest (by decide)
    simp only [List.flatMap_nil, List.nil_append, List.map_nil]
    have e : ([CR, LF] ++ rest) = [CR] ++ LF :: rest := by simp
    rw [e]
    simp only [headerLines, hrd]
    simp [strip_crlf]
  | cons t ts ih =>
    obtain ⟨f, rfl⟩ : ∃ f, fuel = f + 1 := ⟨fuel - 1, by simp at hfuel; omega⟩
    obtain ⟨htlf, htws⟩ := h t (by simp)
    have hlf : LF ∉ t ++ [CR] := by
      intro hm; rcases List.mem_append.1 hm with hm | hm
      · exact htlf hm
      · simp [CR, LF] at hm
    have e : (t :: ts).flatMap (· ++ [CR, LF]) ++ ([CR, LF] ++ rest)
        = (t ++ [CR]) ++ LF :: (ts.flatMap (· ++ [CR, LF]) ++ ([CR, LF] ++ rest)) := by simp
    rw [e]
    have hrd := lfLine_none_line (t ++ [CR]) (ts.flatMap (· ++ [CR, LF]) ++ ([CR, LF] ++ rest)) hlf
    have hne : t ++ [CR] ++ [LF] ≠ [] := by simp
    obtain ⟨y, ys, hys⟩ : ∃ y ys, t ++ [CR] ++ [LF] = y :: ys := by
      cases hc : t ++ [CR] ++ [LF] with
      | nil => exact absurd hc hne
      | cons y ys => exact ⟨y, ys, rfl⟩
    rw [hys] at hrd
    simp only [headerLines, hrd]
    have hstrip : (strip (y :: ys)).isEmpty = false := by
      rw [← hys]
      have : strip (t ++ [CR] ++ [LF]) ≠ [] := strip_ne_nil _ (by
        obtain ⟨b, hb, hw⟩ := htws
        exact ⟨b, by simp [hb], hw⟩)
      cases hs : strip (t ++ [CR] ++ [LF]) with
      | nil => exact absurd hs this
      | cons _ _ => rfl
    simp only [hstrip, Bool.false_eq_true, if_false]
    rw [ih f (fun x hx => h x (by simp [hx])) (by simp at hfuel; omega)]
    simp [← hys]


theorem utf8enc_append (a b : Str) : utf8enc (a ++ b) = utf8enc a ++ utf8enc b := by
  simp [utf8enc]

theorem utf8enc_crlf : utf8enc ['\r', '\n'] = [CR, LF] := by decide

/-- stripping a line that ends in CRLF and whose text begins and ends with a non-blank character -/
theorem strip_text_crlf (t : Str) (c : Char) (r : Str) (ht : t = c :: r) (hc : HeaderValue.isSpace c = false)
    (d : Char) (hl : t.getLast? = some d) (hd : HeaderValue.isSpace d = false) :
    HeaderValue.strip (t ++ ['\r', '\n']) = t := by
  unfold HeaderValue.strip
  subst ht
  rw [List.cons_append, HeaderValue.dropWhile_head_false hc]
  have hrev : ((c :: r) ++ ['\r', '\n']).reverse = '\n' :: '\r' :: (c :: r).reverse := by simp
  rw [← List.cons_append, hrev]
  have h1 : HeaderValue.isSpace '\n' = true := by decide
  have h2 : HeaderValue.isSpace '\r' = true := by decide
  simp only [List.dropWhile_cons, h1, h2, if_true]
  have hh : (c :: r).reverse.head? = some d := by rw [List.head?_reverse]; exact hl
  cases hr : (c :: r).reverse with
  | nil => simp at hr
  | cons x xs =>
    rw [hr] at hh
    simp only [List.head?_cons, Option.some.injEq] at hh
    subst hh
    rw [HeaderValue.dropWhile_head_false hd, ← hr, List.reverse_reverse]

/-- a header line `Name: value CRLF` as an RFC 7578 encoder writes it -/
theorem parseHeaderLine_render (name value : Str) (c0 : Char) (r0 : Str) (hn : name = c0 :: r0)
    (hname : ∀ c ∈ name, c ≠ ':' ∧ 33 ≤ c.toNat ∧ c.toNat ≤ 126)
    (v0 : Char) (vr : Str) (hv : value = v0 :: vr) (hv0 : HeaderValue.isSpace v0 = false)
    (vl : Char) (hvl : value.getLast? = some vl) (hvl' : HeaderValue.isSpace vl = false)
    (hnl : '\n' ∉ value ∧ '\r' ∉ value)
    (hb : CR ∉ utf8enc (name ++ ": ".toList ++ value) ∧ LF ∉ utf8enc (name ++ ": ".toList ++ value)) :
    parseHeaderLine (utf8enc (name ++ ": ".toList ++ value) ++ [CR, LF])
      = some (some (lowerAsciiB name, value)) := by
  obtain ⟨t, ht⟩ : ∃ t, t = name ++ ": ".toList ++ value := ⟨_, rfl⟩
  rw [← ht] at hb ⊢
  unfold parseHeaderLine
  rw [stripEnd_crlf]
  have hcr : (utf8enc t).contains CR = false := by simpa using hb.1
  have hlf : (utf8enc t).contains LF = false := by simpa using hb.2
  simp only [hcr, hlf, Bool.or_self, Bool.false_eq_true, if_false]
  have hdec : utf8dec (utf8enc t ++ [CR, LF]) = some (t ++ ['\r', '\n']) := by
    rw [← utf8enc_crlf, ← utf8enc_append]; exact Poor.Props.C14.utf8dec_utf8enc _
  rw [hdec]
  simp only
  have hsp : ∀ c ∈ name, HeaderValue.isSpace c = false := by
    intro c hc
    obtain ⟨_, h1, h2⟩ := hname c hc
    simp [HeaderValue.isSpace]; omega
  have htcons : t = c0 :: (r0 ++ ": ".toList ++ value) := by rw [ht, hn]; simp
  have htlast : t.getLast? = some vl := by
    rw [ht, getLast?_append_ne_nil (name ++ ": ".toList) value (by rw [hv]; simp)]; exact hvl
  rw [strip_text_crlf t c0 _ htcons (hsp c0 (by rw [hn]; simp)) vl htlast hvl']
  have hne : t.isEmpty = false := by rw [htcons]; rfl
  have hcolon : t.contains ':' = true := by rw [ht]; simp
  have hnonl : t.contains '\n' = false ∧ t.contains '\r' = false := by
    have hn1 : '\n' ∉ name := fun h => by have := (hname _ h).2.1; simp at this
    have hn2 : '\r' ∉ name := fun h => by have := (hname _ h).2.1; simp at this
    rw [ht]
    constructor
    · simp only [List.contains_eq_mem, List.mem_append, decide_eq_false_iff_not]
      rintro ((h | h) | h)
      · exact hn1 h
      · simp at h
      · exact hnl.1 h
    · simp only [List.contains_eq_mem, List.mem_append, decide_eq_false_iff_not]
      rintro ((h | h) | h)
      · exact hn2 h
      · simp at h
      · exact hnl.2 h
  simp only [hne, hcolon, hnonl.1, hnonl.2, Bool.not_true, Bool.or_self, Bool.false_eq_true, if_false]
  have htake : t.takeWhile (· != ':') = name ∧ t.dropWhile (· != ':') = ':' :: ' ' :: value := by
    rw [ht]
    have : ∀ (n : Str), (∀ c ∈ n, c ≠ ':') →
        (n ++ ": ".toList ++ value).takeWhile (· != ':') = n ∧
        (n ++ ": ".toList ++ value).dropWhile (· != ':') = ':' :: ' ' :: value := by
      intro n hnn
      induction n with
      | nil => simp [List.takeWhile, List.dropWhile]
      | cons x xs ih =>
        have hx : (x != ':') = true := by simpa using hnn x (by simp)
        have := ih (fun c hc => hnn c (by simp [hc]))
        simp only [String.toList, List.append_assoc, List.cons_append, List.nil_append] at this ⊢
        simp [List.takeWhile, List.dropWhile, hx, this]
    exact this name (fun c hc => (hname c hc).1)
  rw [htake.1, htake.2]
  have hall : name.all (fun c => decide (33 ≤ c.toNat) && decide (c.toNat ≤ 126)) = true := by
    rw [List.all_eq_true]; intro c hc
    have := hname c hc; simp [this.2.1, this.2.2]
  simp only [hall, Bool.not_true, Bool.false_eq_true, if_false, List.drop_succ_cons, List.drop_zero]
  rw [HeaderValue.strip_space_cons, HeaderValue.strip_id value v0 vr hv hv0 vl hvl hvl']


/-! ### whole bodies: the encoder of the specification and the parser on it -/

/-- a form part as an RFC 7578 encoder sees it -/
structure EPart where
  name : Str
  filename : Option Str
  ctype : Option Str
  content : Bytes

def dispParams (p : EPart) : List (Str × Str) :=
  ("name".toList, p.name) :: (match p.filename with | some f => [("filename".toList, f)] | none => [])

/-- `form-data; name="..."; filename="..."` with backslash and quote escaped -/
def dispValue (p : EPart) : Str := HeaderValue.renderHeader (some "form-data".toList) (dispParams p)

def hdrTexts (p : EPart) : List Str :=
  ("Content-Disposition".toList ++ ": ".toList ++ dispValue p) ::
    (match p.ctype with | some t => ["Content-Type".toList ++ ": ".toList ++ t] | none => [])

def headerBytes (p : EPart) : Bytes :=
  ((hdrTexts p).map utf8enc).flatMap (· ++ [CR, LF])

/-- everything after the first delimiter line -/
def encBody (ib final : Bytes) : List EPart → Bytes
  | [] => []
  | [p] => headerBytes p ++ ([CR, LF] ++ (p.content ++ [CR, LF] ++ (DASH :: DASH :: ib ++ [DASH, DASH] ++ final ++ [])))
  | p :: q :: ps =>
    headerBytes p ++ ([CR, LF] ++ (p.content ++ [CR, LF] ++ (DASH :: DASH :: ib ++ [] ++ [CR, LF] ++ encBody ib final (q :: ps))))

/-- the body an encoder sends for the part list -/
def encode (ib final : Bytes) (ps : List EPart) : Bytes := DASH :: DASH :: ib ++ [CR, LF] ++ encBody ib final ps

/-- what the parser must hand over for it -/
def expected (p : EPart) : Part :=
  ⟨some p.name, p.filename, p.ctype.getD "text/plain".toList, p.content,
   match p.filename with | some f => !f.isEmpty | none => false⟩

/-- admissible parts: content free of the delimiter, header lines without CR/LF, a plain media type -/
structure PartOK (ib : Bytes) (p : EPart) : Prop where
  content : ¬ (DASH :: DASH :: ib) <:+: p.content
  bytes : ∀ t ∈ hdrTexts p, CR ∉ utf8enc t ∧ LF ∉ utf8enc t
  chars : '\n' ∉ dispValue p ∧ '\r' ∉ dispValue p
  ctype : ∀ t, p.ctype = some t → Poor.Props.C18.MainOK t ∧ '\n' ∉ t ∧ '\r' ∉ t ∧
            t.take 10 ≠ "multipart/".toList

theorem keyOK_name : Poor.Props.C18.KeyOK "name".toList := by
  refine ⟨by decide, by decide⟩

theorem keyOK_filename : Poor.Props.C18.KeyOK "filename".toList := by
  refine ⟨by decide, by decide⟩

theorem mainOK_formdata : Poor.Props.C18.MainOK "form-data".toList := by
  refine ⟨by decide, by decide⟩

/-- the Content-Disposition value parses back to the name and file name -/
theorem parse_disp (p : EPart) : HeaderValue.parseHeader (dispValue p) = ("form-data".toList, dispParams p) := by
  unfold dispValue
  apply Poor.Props.C18.C18_params _ _ mainOK_formdata
  · intro kv hkv
    unfold dispParams at hkv
    cases hf : p.filename with
    | none => simp [hf] at hkv; subst hkv; exact keyOK_name
    | some f =>
      simp [hf] at hkv
      rcases hkv with rfl | rfl
      · exact keyOK_name
      · exact keyOK_filename
  · unfold dispParams
    cases p.filename <;> simp <;> decide

theorem parse_ctype (t : Str) (h : Poor.Props.C18.MainOK t) : HeaderValue.parseHeader t = (t, []) := by
  have := Poor.Props.C18.C18_params t [] h (by simp) (by simp)
  simpa [HeaderValue.renderHeader] using this


theorem first_byte_nonws (t : Str) (c : Char) (r : Str) (ht : t = c :: r) (hc : Query.isAscii c = true)
    (hw : isWs (Query.byteOf c) = false) : ∃ b ∈ utf8enc t, isWs b = false := by
  refine ⟨Query.byteOf c, ?_, hw⟩
  rw [ht, Query.utf8enc_cons, Query.utf8enc_ascii_char c hc]
  simp

theorem parseHeaderLine_blank : parseHeaderLine [CR, LF] = some none := by
  unfold parseHeaderLine
  have h0 : stripEnd [CR, LF] = ([], [CR, LF], true) := by simpa using stripEnd_crlf []
  rw [h0]
  have hdec : utf8dec [CR, LF] = some ['\r', '\n'] := by
    rw [← utf8enc_crlf]; exact Poor.Props.C14.utf8dec_utf8enc _
  simp only [hdec]
  have : HeaderValue.strip ['\r', '\n'] = [] := by decide
  simp [this]

/-- the two header lines of a part, parsed -/
theorem parse_disp_line (p : EPart) (ib : Bytes) (hp : PartOK ib p) :
    parseHeaderLine (utf8enc ("Content-Disposition".toList ++ ": ".toList ++ dispValue p) ++ [CR, LF])
      = some (some ("content-disposition".toList, dispValue p)) := by
  have hform : dispValue p = "form-data".toList ++ Poor.Props.C18.tail (dispParams p) :=
    Poor.Props.C18.renderHeader_eq _ _
  have hv : ∃ vr, dispValue p = 'f' :: vr := by
    rw [hform]; exact ⟨_, rfl⟩
  obtain ⟨vr, hvr⟩ := hv
  have hlast : (dispValue p).getLast? = some '"' := by
    rw [hform]
    have hq : ∀ k v : Str, (HeaderValue.renderParam k v).getLast? = some '"' := by
      intro k v
      unfold HeaderValue.renderParam
      rw [getLast?_append_ne_nil _ _ (by decide)]
      rfl
    have ht : ∀ k v : Str, (';' :: ' ' :: HeaderValue.renderParam k v).getLast? = some '"' := by
      intro k v
      have hne : HeaderValue.renderParam k v ≠ [] := by
        intro h; have := hq k v; rw [h] at this; cases this
      rw [show (';' :: ' ' :: HeaderValue.renderParam k v) = [';', ' '] ++ HeaderValue.renderParam k v by rfl,
        getLast?_append_ne_nil _ _ hne]
      exact hq k v
    unfold dispParams Poor.Props.C18.tail
    cases p.filename with
    | none =>
      simp only [List.flatMap_cons, List.flatMap_nil, List.append_nil]
      rw [getLast?_append_ne_nil _ _ (by simp)]
      exact ht _ _
    | some f =>
      simp only [List.flatMap_cons, List.flatMap_nil, List.append_nil]
      rw [← List.append_assoc, getLast?_append_ne_nil _ _ (by simp)]
      exact ht _ _
  have := parseHeaderLine_render "Content-Disposition".toList (dispValue p) 'C' "ontent-Disposition".toList (by decide)
    (by decide) 'f' vr hvr (by decide) '"' hlast (by decide) hp.chars
    (hp.bytes _ (by simp [hdrTexts]))
  rw [this]
  have : lowerAsciiB "Content-Disposition".toList = "content-disposition".toList := by decide
  rw [this]


theorem parse_ctype_line (p : EPart) (ib : Bytes) (hp : PartOK ib p) (t : Str) (ht : p.ctype = some t) :
    parseHeaderLine (utf8enc ("Content-Type".toList ++ ": ".toList ++ t) ++ [CR, LF])
      = some (some ("content-type".toList, t)) := by
  obtain ⟨hm, hn1, hn2, _⟩ := hp.ctype t ht
  obtain ⟨c, r, hcr⟩ : ∃ c r, t = c :: r := by
    cases hc : t with
    | nil => exact absurd hc hm.1
    | cons c r => exact ⟨c, r, rfl⟩
  have hlast : t.getLast? = some (t.getLast hm.1) := List.getLast?_eq_some_getLast hm.1
  have := parseHeaderLine_render "Content-Type".toList t 'C' "ontent-Type".toList (by decide)
    (by decide) c r hcr ((hm.2 c (by rw [hcr]; simp)).2.2) (t.getLast hm.1) hlast
    ((hm.2 _ (List.getLast_mem hm.1)).2.2) ⟨hn1, hn2⟩
    (hp.bytes _ (by simp [hdrTexts, ht]))
  rw [this]
  have : lowerAsciiB "Content-Type".toList = "content-type".toList := by decide
  rw [this]

/-- the header block of a part, parsed: the (name, value) pairs `readParts` works with -/
def hdrPairs (p : EPart) : List (Str × Str) :=
  ("content-disposition".toList, dispValue p) ::
    (match p.ctype with | some t => [("content-type".toList, t)] | none => [])

theorem header_block (ib : Bytes) (p : EPart) (hp : PartOK ib p) (rest : Bytes) (fuel : Nat) (hfuel : 2 < fuel) :
    ∃ lines, headerLines lfReader fuel (headerBytes p ++ ([CR, LF] ++ rest)) = (lines, rest) ∧
      lines.isEmpty = false ∧
      lines.mapM parseHeaderLine = some ((hdrPairs p).map some ++ [none]) := by
  have hblock := headerLines_block ((hdrTexts p).map utf8enc) rest fuel (by
    intro t ht
    obtain ⟨x, hx, rfl⟩ := List.mem_map.1 ht
    refine ⟨(hp.bytes x hx).2, ?_⟩
    have hC : ∃ r, x = 'C' :: r := by
      unfold hdrTexts at hx
      rcases List.mem_cons.1 hx with rfl | hx
      · exact ⟨_, rfl⟩
      · cases hct : p.ctype with
        | none => simp [hct] at hx
        | some t => simp [hct] at hx; subst hx; exact ⟨_, rfl⟩
    obtain ⟨r, hr⟩ := hC
    exact first_byte_nonws x 'C' r hr (by decide) (by decide)) (by
    unfold hdrTexts; cases p.ctype <;> simp <;> omega)
  refine ⟨_, hblock, by simp, ?_⟩
  unfold hdrTexts hdrPairs
  cases hct : p.ctype with
  | none =>
    simp only [List.map_cons, List.map_nil, List.cons_append, List.nil_append, List.mapM_cons, List.mapM_nil]
    rw [parse_disp_line p ib hp, parseHeaderLine_blank]
    rfl
  | some t =>
    simp only [List.map_cons, List.map_nil, List.cons_append, List.nil_append, List.mapM_cons, List.mapM_nil]
    rw [parse_disp_line p ib hp, parse_ctype_line p ib hp t hct, parseHeaderLine_blank]
    rfl


theorem filterMap_pairs (l : List (Str × Str)) : (l.map some ++ [none]).filterMap id = l := by
  induction l with
  | nil => rfl
  | cons a t ih => simpa using ih

theorem partParams_pairs (p : EPart) : partParams (hdrPairs p) = dispParams p := by
  unfold partParams headerGet hdrPairs
  simp [List.find?, parse_disp]

theorem partCtype_pairs (ib : Bytes) (p : EPart) (hp : PartOK ib p) :
    partCtype (hdrPairs p) = p.ctype.getD "text/plain".toList := by
  unfold partCtype headerGet hdrPairs
  have : ("content-disposition".toList == "content-type".toList) = false := by decide
  cases hc : p.ctype with
  | none => simp [List.find?, this]
  | some t => simp [List.find?, this, parse_ctype t (hp.ctype t hc).1]

/-- one turn of the `read_multi` loop on an encoded part -/
theorem readParts_step (ib : Bytes) (hb : BOk (DASH :: DASH :: ib)) (p : EPart) (hp : PartOK ib p)
    (mark eol tail : Bytes) (hmark : mark = [] ∨ mark = [DASH, DASH])
    (heol : eol = [CR, LF] ∨ (eol = [] ∧ tail = [])) (fuel : Nat) (hfuel : p.content.length + 2 < fuel) :
    readParts lfReader ib (fuel + 1)
        (headerBytes p ++ ([CR, LF] ++ (p.content ++ [CR, LF] ++ (DASH :: DASH :: ib ++ mark ++ eol ++ tail))))
      = (if mark = [] then
          (match readParts lfReader ib fuel tail with
           | .ok ps => .ok (expected p :: ps)
           | e => e)
         else .ok [expected p]) := by
  obtain ⟨lines, hl1, hl2, hl3⟩ := header_block ib p hp
    (p.content ++ [CR, LF] ++ (DASH :: DASH :: ib ++ mark ++ eol ++ tail)) fuel (by omega)
  have hbody := Poor.Multipart.extract_aux (DASH :: DASH :: ib) mark eol tail p.content hb hp.content hmark heol
    (p.content.length + 2) ⟨[], [], true⟩ [] (p.content ++ [CR, LF]) fuel (by simp) hfuel (by simp) (by simp)
    (by intro h; simp at h) (by simp) (Or.inr (Or.inr (Or.inr rfl)))
  have hnb : DASH :: DASH :: ib ++ [DASH, DASH] = (DASH :: DASH :: ib) ++ [DASH, DASH] := rfl
  have hmp : ¬ (p.ctype.getD "text/plain".toList).take 10 = "multipart/".toList := by
    cases hc : p.ctype with
    | none => decide
    | some t => simpa using (hp.ctype t hc).2.2.2
  have hname : dictGet (dispParams p) "name" = some p.name := by
    unfold dictGet dispParams; simp [List.find?]
  have hfile : dictGet (dispParams p) "filename" = p.filename := by
    unfold dictGet dispParams
    have : ("name".toList == "filename".toList) = false := by decide
    cases p.filename <;> simp [List.find?, this]
  simp only [readParts, hl1, hl2, hl3, Bool.false_eq_true, if_false, filterMap_pairs, partParams_pairs,
    partCtype_pairs ib p hp, hmp, hname, hfile, hnb, hbody]
  rcases hmark with rfl | rfl
  · simp only [if_true]
    cases readParts lfReader ib fuel tail <;> rfl
  · have : ([DASH, DASH] : Bytes) ≠ [] := by decide
    simp only [this, if_false]
    rfl


/-- the whole `read_multi` loop on the encoded parts -/
theorem readParts_body (ib final : Bytes) (hb : BOk (DASH :: DASH :: ib)) (hfinal : final = [CR, LF] ∨ final = []) :
    ∀ (ps : List EPart), ps ≠ [] → (∀ p ∈ ps, PartOK ib p) →
      ∀ fuel, (∀ p ∈ ps, p.content.length + 2 + ps.length < fuel) →
      readParts lfReader ib fuel (encBody ib final ps) = .ok (ps.map expected) := by
  intro ps
  induction ps with
  | nil => intro h; exact absurd rfl h
  | cons p rest ih =>
    intro _ hok fuel hfuel
    obtain ⟨f, rfl⟩ : ∃ f, fuel = f + 1 := ⟨fuel - 1, by have := hfuel p (by simp); omega⟩
    cases rest with
    | nil =>
      have hf : p.content.length + 2 < f := by have := hfuel p (by simp); simp at this; omega
      have heol : final = [CR, LF] ∨ (final = [] ∧ ([] : Bytes) = []) := by
        rcases hfinal with h | h
        · exact Or.inl h
        · exact Or.inr ⟨h, rfl⟩
      have := readParts_step ib hb p (hok p (by simp)) [DASH, DASH] final [] (Or.inr rfl) heol f hf
      simp only [encBody]
      rw [this]
      have : ([DASH, DASH] : Bytes) ≠ [] := by decide
      simp [this]
    | cons q qs =>
      have hf : p.content.length + 2 < f := by have := hfuel p (by simp); simp at this; omega
      have := readParts_step ib hb p (hok p (by simp)) [] [CR, LF] (encBody ib final (q :: qs)) (Or.inl rfl)
        (Or.inl rfl) f hf
      simp only [encBody]
      rw [this]
      have hrec := ih (by simp) (fun x hx => hok x (by simp [hx])) f (by
        intro x hx
        have := hfuel x (by simp [hx])
        simp only [List.length_cons] at this ⊢
        omega)
      simp only [if_true, hrec, List.map_cons]

theorem rstrip_crlf (l : Bytes) (q : Bytes) (z : UInt8) (hl : l = q ++ [z]) (hz : isWs z = false) :
    rstrip (l ++ [CR, LF]) = l := by
  have e : l ++ [CR, LF] = (l ++ [CR]) ++ [LF] := by simp
  rw [e, rstrip_append_ws _ LF (by decide), rstrip_append_ws _ CR (by decide), hl]
  exact rstrip_self q z hz

/-- **C08 for the in-memory reader, whole bodies.** -/
theorem parse_encode (ib final : Bytes) (hb : BOk (DASH :: DASH :: ib)) (hvalid : validBoundary ib = true)
    (hfinal : final = [CR, LF] ∨ final = []) (ps : List EPart) (hne : ps ≠ []) (hok : ∀ p ∈ ps, PartOK ib p)
    (fuel : Nat) (hfuel : ∀ p ∈ ps, p.content.length + 3 + ps.length < fuel) :
    parseMultipart lfReader ib fuel (encode ib final ps) = .ok (ps.map expected) := by
  unfold parseMultipart
  rw [hvalid]
  simp only [Bool.not_true, Bool.false_eq_true, if_false]
  obtain ⟨f, rfl⟩ : ∃ f, fuel = f + 1 := by
    obtain ⟨p, hp⟩ := List.exists_mem_of_ne_nil ps hne
    exact ⟨fuel - 1, by have := hfuel p hp; omega⟩
  -- the first delimiter line
  have hline : lfReader.line none (encode ib final ps) = (DASH :: DASH :: ib ++ [CR, LF], encBody ib final ps) := by
    have e : encode ib final ps = (DASH :: DASH :: ib ++ [CR]) ++ LF :: encBody ib final ps := by
      simp [encode]
    rw [e, lfLine_none_line _ _ (by
      intro h
      rcases List.mem_append.1 h with h | h
      · exact hb.nolf h
      · simp [CR, LF] at h)]
    simp
  have hstrip : strip (DASH :: DASH :: ib ++ [CR, LF]) = DASH :: DASH :: ib := by
    unfold strip
    have hd : isWs DASH = false := by decide
    simp only [List.cons_append, List.dropWhile_cons, hd, Bool.false_eq_true, if_false]
    obtain ⟨q, z, hq, hz⟩ := hb.last
    have := rstrip_crlf (DASH :: DASH :: ib) q z hq hz
    simpa using this
  have hskip : skipToBoundary lfReader ib (f + 1) (encode ib final ps) = encBody ib final ps := by
    simp only [skipToBoundary, hline]
    have hstrip' : strip (DASH :: DASH :: (ib ++ [CR, LF])) = DASH :: DASH :: ib := by simpa using hstrip
    simp [hstrip']
  rw [hskip]
  exact readParts_body ib final hb hfinal ps hne hok (f + 1) (by
    intro p hp; have := hfuel p hp; omega)


end Poor.Multipart
