import PoorModel.Multipart
/-
Lemmas for property C08: the in-memory line reader and the content loop of one part.
-/
namespace Poor.Multipart
open Poor

/-! ### `lfTake` -/

theorem lfTake_prefix (k : Nat) (s : Bytes) : lfTake k s ++ s.drop (lfTake k s).length = s := by
  fun_induction lfTake k s <;> simp_all

theorem lfTake_length_le (k : Nat) (s : Bytes) : (lfTake k s).length ≤ k := by
  fun_induction lfTake k s <;> simp <;> omega

theorem lfTake_ne_nil (k : Nat) (s : Bytes) (hk : 0 < k) (hs : s ≠ []) : lfTake k s ≠ [] := by
  cases k with
  | zero => omega
  | succ k =>
    cases s with
    | nil => exact absurd rfl hs
    | cons x xs => simp only [lfTake]; split <;> simp

/-- the line does not run past the first LF -/
theorem lfTake_stops (k : Nat) (a b : Bytes) (ha : LF ∉ a) :
    (lfTake k (a ++ LF :: b)).length ≤ a.length + 1 := by
  induction a generalizing k with
  | nil =>
    cases k with
    | zero => simp [lfTake]
    | succ k => simp [lfTake]
  | cons x xs ih =>
    cases k with
    | zero => simp [lfTake]
    | succ k =>
      have hx : x ≠ LF := by intro e; apply ha; simp [e]
      simp only [List.cons_append, lfTake, hx, if_false, List.length_cons]
      have := ih k (fun h => ha (by simp [h]))
      omega

/-- with room enough the line is everything up to and including the first LF -/
theorem lfTake_line (k : Nat) (a b : Bytes) (ha : LF ∉ a) (hk : a.length + 1 ≤ k) :
    lfTake k (a ++ LF :: b) = a ++ [LF] := by
  induction a generalizing k with
  | nil =>
    cases k with
    | zero => omega
    | succ k => simp [lfTake]
  | cons x xs ih =>
    cases k with
    | zero => simp at hk
    | succ k =>
      have hx : x ≠ LF := by intro e; apply ha; simp [e]
      simp only [List.cons_append, lfTake, hx, if_false, List.cons.injEq, true_and]
      exact ih k (fun h => ha (by simp [h])) (by simp at hk; omega)

/-- ... and all of a string without LF -/
theorem lfTake_all (k : Nat) (a : Bytes) (ha : LF ∉ a) (hk : a.length ≤ k) : lfTake k a = a := by
  induction a generalizing k with
  | nil => cases k <;> simp [lfTake]
  | cons x xs ih =>
    cases k with
    | zero => simp at hk
    | succ k =>
      have hx : x ≠ LF := by intro e; apply ha; simp [e]
      simp only [lfTake, hx, if_false, List.cons.injEq, true_and]
      exact ih k (fun h => ha (by simp [h])) (by simp at hk; omega)

/-! ### `rstrip`, `stripEnd` -/

theorem rstrip_prefix (l : Bytes) : rstrip l <+: l := by
  unfold rstrip
  have h := List.dropWhile_suffix isWs (l := l.reverse)
  have := List.reverse_prefix.mpr h
  simpa using this

theorem rstrip_append_ws (l : Bytes) (w : UInt8) (hw : isWs w = true) : rstrip (l ++ [w]) = rstrip l := by
  unfold rstrip
  simp [List.dropWhile_cons, hw]

theorem rstrip_self (l : Bytes) (x : UInt8) (hx : isWs x = false) : rstrip (l ++ [x]) = l ++ [x] := by
  unfold rstrip
  simp [List.dropWhile_cons, hx]

theorem endsWith_iff (l suf : Bytes) : endsWith l suf = true ↔ ∃ t, l = t ++ suf := by
  unfold endsWith
  rw [List.isSuffixOf_iff_suffix]
  constructor
  · rintro ⟨t, ht⟩; exact ⟨t, ht.symm⟩
  · rintro ⟨t, ht⟩; exact ⟨t, ht.symm⟩

/-- a line is its text plus the terminator that was split off -/
theorem stripEnd_split (l : Bytes) : (stripEnd l).1 ++ (stripEnd l).2.1 = l := by
  unfold stripEnd
  split
  · rename_i h
    obtain ⟨t, rfl⟩ := (endsWith_iff _ _).1 h
    simp [List.dropLast_append_cons]
  · split
    · rename_i h
      obtain ⟨t, rfl⟩ := (endsWith_iff _ _).1 h
      simp
    · split
      · rename_i h
        obtain ⟨t, rfl⟩ := (endsWith_iff _ _).1 h
        simp
      · simp

theorem stripEnd_delim (l : Bytes) :
    (stripEnd l).2.1 = [CR, LF] ∨ (stripEnd l).2.1 = [LF] ∨ (stripEnd l).2.1 = [CR] ∨ (stripEnd l).2.1 = [] := by
  unfold stripEnd
  split
  · exact Or.inl rfl
  · split
    · exact Or.inr (Or.inl rfl)
    · split
      · exact Or.inr (Or.inr (Or.inl rfl))
      · exact Or.inr (Or.inr (Or.inr rfl))

theorem stripEnd_crlf (t : Bytes) : stripEnd (t ++ [CR, LF]) = (t, [CR, LF], true) := by
  unfold stripEnd
  have hs : endsWith (t ++ [CR, LF]) [CR, LF] = true := (endsWith_iff _ _).2 ⟨t, rfl⟩
  rw [if_pos hs]
  simp [List.dropLast_append_cons]

/-- without a line end the text does not end in CR -/
theorem stripEnd_nodelim (l : Bytes) (h : (stripEnd l).2.1 = []) :
    (stripEnd l).1 = l ∧ l.getLast? ≠ some CR := by
  unfold stripEnd at h ⊢
  split at h
  · cases h
  · split at h
    · cases h
    · split at h
      · cases h
      · rename_i h1 h2 h3
        simp only [h1, h2, h3, Bool.false_eq_true, if_false, true_and]
        intro hl
        apply h3
        apply (endsWith_iff _ _).2
        have hne : l ≠ [] := by intro h0; simp [h0] at hl
        refine ⟨l.dropLast, ?_⟩
        have := List.dropLast_concat_getLast hne
        rw [List.getLast?_eq_some_getLast hne] at hl
        rw [← this, Option.some.inj hl]
        simp

/-! ### infixes -/

theorem infix_of_infix_concat {l x : Bytes} {y : UInt8} (h : l <:+: x ++ [y]) (hy : y ∉ l) : l <:+: x := by
  obtain ⟨s, t, e⟩ := h
  cases t.eq_nil_or_concat with
  | inl ht =>
    subst ht
    simp only [List.append_nil] at e
    cases l.eq_nil_or_concat with
    | inl hl => subst hl; exact ⟨x, [], by simp⟩
    | inr hl =>
      obtain ⟨l', z, rfl⟩ := hl
      have e' : (s ++ l') ++ [z] = x ++ [y] := by simpa using e
      have hz := List.append_inj_right' e' rfl
      simp only [List.cons.injEq, and_true] at hz
      exact absurd (by simp [hz]) hy
  | inr ht =>
    obtain ⟨t', z, rfl⟩ := ht
    have e' : (s ++ l ++ t') ++ [z] = x ++ [y] := by simpa using e
    have := List.append_inj_left' e' rfl
    exact ⟨s, t', this⟩

/-! ### the content loop on the in-memory reader -/

/-- what the parser needs of a delimiter `nb = "--" ++ boundary` -/
structure BOk (nb : Bytes) : Prop where
  dash : nb.take 2 = [DASH, DASH]
  last : ∃ p x, nb = p ++ [x] ∧ isWs x = false
  nocr : CR ∉ nb
  nolf : LF ∉ nb
  short : nb.length + 4 ≤ LINE_CAP

theorem take2_append (nb r : Bytes) (h : nb.take 2 = [DASH, DASH]) : (nb ++ r).take 2 = [DASH, DASH] := by
  match nb, h with
  | a :: b :: t, h => simpa using h

theorem split_first_lf (l : Bytes) (h : LF ∈ l) : ∃ a b, l = a ++ LF :: b ∧ LF ∉ a := by
  induction l with
  | nil => simp at h
  | cons x xs ih =>
    by_cases hx : x = LF
    · exact ⟨[], xs, by simp [hx], by simp⟩
    · have : LF ∈ xs := by
        rcases List.mem_cons.mp h with e | e
        · exact absurd e.symm hx
        · exact e
      obtain ⟨a, b, e, hp⟩ := ih this
      refine ⟨x :: a, b, by simp [e], ?_⟩
      intro hm
      rcases List.mem_cons.mp hm with e' | e'
      · exact hx e'.symm
      · exact hp e'

/-- the delimiter is not found inside the content, nor across its end -/
theorem no_hit (nb c post l : Bytes) (hb : BOk nb) (hno : ¬ nb <:+: c) (hpost : post <:+: c ++ [CR, LF])
    (hl : l <+: post) (x : Bytes) (hx : nb <+: x) (hr : x <+: l) : False := by
  apply hno
  have h1 : nb <:+: c ++ [CR, LF] := ((hx.trans hr).trans hl).isInfix.trans hpost
  have h2 : nb <:+: (c ++ [CR]) ++ [LF] := by simpa using h1
  have h3 := infix_of_infix_concat h2 hb.nolf
  exact infix_of_infix_concat h3 hb.nocr

theorem readLines_step (rd : Rd R) (nb lb : Bytes) (fuel : Nat) (st : PS) (r r' : R) (x : UInt8) (xs : Bytes)
    (h : rd.line (some LINE_CAP) r = (x :: xs, r')) :
    readLines rd nb lb (fuel + 1) st r =
      (let l := x :: xs
       let l1 := if st.delim = [CR] then CR :: l else l
       let d0 := if st.delim = [CR] then [] else st.delim
       if l1.take 2 = [DASH, DASH] ∧ st.lfend = true ∧ rstrip l1 = nb then (st.out, .next, r')
       else if l1.take 2 = [DASH, DASH] ∧ st.lfend = true ∧ rstrip l1 = lb then (st.out, .last, r')
       else readLines rd nb lb fuel (absorb st l1 d0) r') := by
  simp only [readLines, h]


theorem lfLine_cap (s : Bytes) :
    lfReader.line (some LINE_CAP) s = (lfTake LINE_CAP s, s.drop (lfTake LINE_CAP s).length) := rfl

/-- the delimiter line itself -/
theorem at_boundary (nb mark eol tail c : Bytes) (hb : BOk nb)
    (hmark : mark = [] ∨ mark = [DASH, DASH]) (heol : eol = [CR, LF] ∨ (eol = [] ∧ tail = []))
    (st : PS) (fuel : Nat) (hout : st.out = c) (hd : st.delim = [CR, LF]) (hlf : st.lfend = true) :
    readLines lfReader nb (nb ++ [DASH, DASH]) (fuel + 1) st (nb ++ mark ++ eol ++ tail)
      = (c, if mark = [] then Stop.next else Stop.last, tail) := by
  obtain ⟨p, x, hnb, hx⟩ := hb.last
  have hnbne : nb ≠ [] := by rw [hnb]; simp
  have hmlf : LF ∉ nb ++ mark := by
    intro h
    rcases List.mem_append.1 h with h | h
    · exact hb.nolf h
    · rcases hmark with rfl | rfl <;> simp [DASH, LF] at h
  have hmlen : mark.length ≤ 2 := by rcases hmark with rfl | rfl <;> simp
  -- the line that is read
  have hline : ∃ l, lfTake LINE_CAP (nb ++ mark ++ eol ++ tail) = l ∧
      (nb ++ mark ++ eol ++ tail).drop l.length = tail ∧ l = nb ++ mark ++ eol := by
    rcases heol with rfl | ⟨rfl, rfl⟩
    · refine ⟨nb ++ mark ++ [CR, LF], ?_, ?_, rfl⟩
      · have e : nb ++ mark ++ [CR, LF] ++ tail = (nb ++ mark ++ [CR]) ++ LF :: tail := by simp
        rw [e, lfTake_line _ _ _ (by
          intro h
          rcases List.mem_append.1 h with h | h
          · exact hmlf h
          · simp [CR, LF] at h) (by
            have := hb.short
            simp only [List.length_append, List.length_cons, List.length_nil]
            omega)]
        simp
      · simp
    · refine ⟨nb ++ mark, ?_, ?_, by simp⟩
      · simp only [List.append_nil]
        exact lfTake_all _ _ hmlf (by
          have := hb.short
          simp only [List.length_append]; omega)
      · simp
  obtain ⟨l, hl1, hl2, hl3⟩ := hline
  have hlne : l ≠ [] := by rw [hl3]; simp [hnbne]
  obtain ⟨y, ys, hys⟩ : ∃ y ys, l = y :: ys := by
    cases l with
    | nil => exact absurd rfl hlne
    | cons y ys => exact ⟨y, ys, rfl⟩
  have hrd : lfReader.line (some LINE_CAP) (nb ++ mark ++ eol ++ tail) = (y :: ys, tail) := by
    rw [lfLine_cap, hl1, hl2, hys]
  rw [readLines_step lfReader nb _ fuel st _ tail y ys hrd]
  have hdcr : st.delim ≠ [CR] := by rw [hd]; decide
  simp only [hdcr, if_false, ← hys]
  have htake : l.take 2 = [DASH, DASH] := by
    rw [hl3, List.append_assoc]; exact take2_append nb _ hb.dash
  have hrs : rstrip l = nb ++ mark := by
    have hlast : ∃ q z, nb ++ mark = q ++ [z] ∧ isWs z = false := by
      rcases hmark with rfl | rfl
      · exact ⟨p, x, by simpa using hnb, hx⟩
      · exact ⟨nb ++ [DASH], DASH, by simp, by decide⟩
    obtain ⟨q, z, hq, hz⟩ := hlast
    rw [hl3]
    rcases heol with rfl | ⟨rfl, rfl⟩
    · have e : nb ++ mark ++ [CR, LF] = (nb ++ mark ++ [CR]) ++ [LF] := by simp
      rw [e, rstrip_append_ws _ LF (by decide), rstrip_append_ws _ CR (by decide), hq]
      exact rstrip_self q z hz
    · simp only [List.append_nil]
      rw [hq]; exact rstrip_self q z hz
  rcases hmark with rfl | rfl
  · simp only [List.append_nil] at hrs
    rw [if_pos ⟨htake, hlf, hrs⟩, hout]
    simp
  · have hne : rstrip l ≠ nb := by
      rw [hrs]; intro h
      have := congrArg List.length h
      simp at this
    rw [if_neg (fun h => hne h.2.2), if_pos ⟨htake, hlf, hrs⟩, hout]
    simp


theorem getLast?_append_ne_nil (a b : Bytes) (hb : b ≠ []) : (a ++ b).getLast? = b.getLast? := by
  rw [List.getLast?_append]
  cases h : b.getLast? with
  | none => exact absurd (List.getLast?_eq_none_iff.1 h) hb
  | some x => rfl

/-- the content loop: invariant over everything before the delimiter line -/
theorem extract_aux (nb mark eol tail c : Bytes) (hb : BOk nb) (hno : ¬ nb <:+: c)
    (hmark : mark = [] ∨ mark = [DASH, DASH]) (heol : eol = [CR, LF] ∨ (eol = [] ∧ tail = [])) :
    ∀ (n : Nat) (st : PS) (pre post : Bytes) (fuel : Nat),
      post.length ≤ n → n < fuel → pre ++ post = c ++ [CR, LF] → st.out ++ st.delim = pre →
      (post = [] → st.delim = [CR, LF] ∧ st.lfend = true) →
      (st.delim = [] → st.out.getLast? ≠ some CR) →
      (st.delim = [CR, LF] ∨ st.delim = [LF] ∨ st.delim = [CR] ∨ st.delim = []) →
      readLines lfReader nb (nb ++ [DASH, DASH]) fuel st (post ++ (nb ++ mark ++ eol ++ tail))
        = (c, if mark = [] then Stop.next else Stop.last, tail) := by
  intro n
  induction n with
  | zero =>
    intro st pre post fuel hlen hfuel hsplit hinv hend _ _
    have hp : post = [] := List.length_eq_zero_iff.mp (by omega)
    subst hp
    obtain ⟨hd, hlf⟩ := hend rfl
    obtain ⟨f, rfl⟩ : ∃ f, fuel = f + 1 := ⟨fuel - 1, by omega⟩
    have hout : st.out = c := by
      rw [hd] at hinv
      simp only [List.append_nil] at hsplit
      rw [hsplit] at hinv
      exact List.append_cancel_right hinv
    simpa using at_boundary nb mark eol tail c hb hmark heol st f hout hd hlf
  | succ n ih =>
    intro st pre post fuel hlen hfuel hsplit hinv hend hcr hdel
    by_cases hp : post = []
    · subst hp
      obtain ⟨hd, hlf⟩ := hend rfl
      obtain ⟨f, rfl⟩ : ∃ f, fuel = f + 1 := ⟨fuel - 1, by omega⟩
      have hout : st.out = c := by
        rw [hd] at hinv
        simp only [List.append_nil] at hsplit
        rw [hsplit] at hinv
        exact List.append_cancel_right hinv
      simpa using at_boundary nb mark eol tail c hb hmark heol st f hout hd hlf
    · obtain ⟨f, rfl⟩ : ∃ f, fuel = f + 1 := ⟨fuel - 1, by omega⟩
      obtain ⟨rest2, hrest2⟩ : ∃ r, r = nb ++ mark ++ eol ++ tail := ⟨_, rfl⟩
      rw [← hrest2]
      -- post ends with the LF of the structural CRLF
      have hlfmem : LF ∈ post := by
        have hne : post ≠ [] := hp
        have h1 : (pre ++ post).getLast? = some LF := by rw [hsplit]; simp
        rw [getLast?_append_ne_nil _ _ hne] at h1
        exact List.mem_of_getLast? h1
      obtain ⟨a, b, hab, ha⟩ := split_first_lf post hlfmem
      obtain ⟨l, hl⟩ : ∃ l, l = lfTake LINE_CAP (post ++ rest2) := ⟨_, rfl⟩
      have hlen1 : l.length ≤ post.length := by
        have := lfTake_stops LINE_CAP a (b ++ rest2) ha
        rw [hl, hab]
        simp only [List.append_assoc, List.cons_append, List.length_append, List.length_cons] at this ⊢
        omega
      have hlne : l ≠ [] := by
        rw [hl]; exact lfTake_ne_nil LINE_CAP (post ++ rest2) (by decide) (by simp [hp])
      have hpre := lfTake_prefix LINE_CAP (post ++ rest2)
      rw [← hl] at hpre
      have hpost : post = l ++ post.drop l.length := by
        have h1 : l = (post ++ rest2).take l.length := by
          conv => rhs; rw [← hpre]
          simp
        rw [List.take_append_of_le_length hlen1] at h1
        conv => lhs; rw [← List.take_append_drop l.length post]
        rw [← h1]
      have hdrop : (post ++ rest2).drop l.length = post.drop l.length ++ rest2 :=
        List.drop_append_of_le_length hlen1
      obtain ⟨y, ys, hys⟩ : ∃ y ys, l = y :: ys := by
        cases hc : l with
        | nil => exact absurd hc hlne
        | cons y ys => exact ⟨y, ys, rfl⟩
      have hrd : lfReader.line (some LINE_CAP) (post ++ rest2) = (y :: ys, post.drop l.length ++ rest2) := by
        rw [lfLine_cap, ← hl, hdrop, hys]
      rw [readLines_step lfReader nb _ f st _ _ y ys hrd]
      simp only [← hys]
      -- no false delimiter
      have hpostinfix : post <:+: c ++ [CR, LF] := ⟨pre, [], by simpa using hsplit⟩
      have hlpre : l <+: post := ⟨post.drop l.length, hpost.symm⟩
      have hnohit : ∀ z, nb <+: z → ¬ (((if st.delim = [CR] then CR :: l else l).take 2 = [DASH, DASH]) ∧
          st.lfend = true ∧ rstrip (if st.delim = [CR] then CR :: l else l) = z) := by
        intro z hz ⟨h1, _, h3⟩
        by_cases hdc : st.delim = [CR]
        · simp only [hdc, if_true] at h1
          cases hls : l with
          | nil => exact hlne hls
          | cons q qs => rw [hls] at h1; simp [CR, DASH] at h1
        · simp only [hdc, if_false] at h3
          have : z <+: l := by rw [← h3]; exact rstrip_prefix l
          exact no_hit nb c post l hb hno hpostinfix hlpre z hz this
      rw [if_neg (hnohit nb (List.prefix_refl _)), if_neg (hnohit (nb ++ [DASH, DASH]) (List.prefix_append _ _))]
      -- the next state
      obtain ⟨l1, hl1⟩ : ∃ x, x = (if st.delim = [CR] then CR :: l else l) := ⟨_, rfl⟩
      obtain ⟨d0, hd0⟩ : ∃ x, x = (if st.delim = [CR] then [] else st.delim) := ⟨_, rfl⟩
      rw [← hl1, ← hd0]
      subst hrest2
      have hl1ne : l1 ≠ [] := by rw [hl1]; split <;> simp [hlne]
      have hcons : st.out ++ d0 ++ l1 = pre ++ l := by
        rw [hl1, hd0, ← hinv]
        by_cases hdc : st.delim = [CR]
        · simp [hdc]
        · simp [hdc]
      have hsplit' : (pre ++ l) ++ post.drop l.length = c ++ [CR, LF] := by
        rw [List.append_assoc, ← hpost]; exact hsplit
      apply ih (absorb st l1 d0) (pre ++ l) (post.drop l.length) f
      · have : 0 < l.length := List.length_pos_iff.mpr hlne
        simp only [List.length_drop]; omega
      · omega
      · exact hsplit'
      · simp only [absorb]
        rw [List.append_assoc, stripEnd_split, hcons]
      · intro hnil
        -- l is the end of post: the structural CRLF has just been read
        have hpl : pre ++ l = c ++ [CR, LF] := by simpa [hnil] using hsplit'
        have hends : ∃ t, l1 = t ++ [CR, LF] := by
          cases hl2 : l.reverse with
          | nil => exact absurd (by simpa using hl2) hlne
          | cons z1 zs =>
            have hlz : l = zs.reverse ++ [z1] := by
              have := congrArg List.reverse hl2; simpa using this
            cases zs with
            | nil =>
              -- l = [LF]: the CR was carried over
              simp only [List.reverse_nil, List.nil_append] at hlz
              have hz1 : pre ++ [z1] = (c ++ [CR]) ++ [LF] := by rw [← hlz]; simpa using hpl
              have hz : z1 = LF := by
                have := List.append_inj_right' hz1 rfl; simpa using this
              have hprecr : pre = c ++ [CR] := List.append_inj_left' hz1 rfl
              have hdcr : st.delim = [CR] := by
                rcases hdel with h | h | h | h
                · rw [h] at hinv
                  have : (st.out ++ [CR, LF]).getLast? = (c ++ [CR]).getLast? := by rw [hinv, hprecr]
                  simp [CR, LF] at this
                · rw [h] at hinv
                  have : (st.out ++ [LF]).getLast? = (c ++ [CR]).getLast? := by rw [hinv, hprecr]
                  simp [CR, LF] at this
                · exact h
                · exfalso
                  rw [h] at hinv
                  simp only [List.append_nil] at hinv
                  apply hcr h
                  rw [hinv, hprecr]; simp
              refine ⟨[], ?_⟩
              rw [hl1, hdcr, hlz, hz]; simp
            | cons z2 zs' =>
              have hlz' : l = zs'.reverse ++ [z2, z1] := by rw [hlz]; simp
              have hz1 : (pre ++ zs'.reverse) ++ [z2, z1] = c ++ [CR, LF] := by rw [← hpl, hlz']; simp
              have hzz : [z2, z1] = [CR, LF] := List.append_inj_right' hz1 rfl
              refine ⟨(if st.delim = [CR] then [CR] else []) ++ zs'.reverse, ?_⟩
              rw [hl1, hlz', hzz]
              split <;> simp
        obtain ⟨t, ht⟩ := hends
        simp only [absorb, ht, stripEnd_crlf]
        exact ⟨trivial, trivial⟩
      · intro hdn
        simp only [absorb] at hdn ⊢
        obtain ⟨h1, h2⟩ := stripEnd_nodelim l1 hdn
        rw [h1, getLast?_append_ne_nil _ _ hl1ne]
        exact h2
      · exact stripEnd_delim l1


end Poor.Multipart
