import PoorModel.Query
import PoorProofs.Props.C14
/-
Lemmas about the percent-decoder of Poor.Query (property C10).
-/
namespace Poor.Query
open Poor
open Poor.Headers (utf8enc utf8dec)

theorem unqBytes_cons_ne (c : Char) (r : Str) (h : c ≠ '%') : unqBytes (c :: r) = byteOf c :: unqBytes r := by
  match r with
  | [] => simp [unqBytes]
  | [d] => simp [unqBytes]
  | d :: e :: r' => simp [unqBytes, h]

theorem unqBytes_pct (a b : Char) (x y : Nat) (r : Str) (ha : hexVal a = some x) (hb : hexVal b = some y) :
    unqBytes ('%' :: a :: b :: r) = UInt8.ofNat (x * 16 + y) :: unqBytes r := by
  simp [unqBytes, ha, hb]

/-- an ASCII string without `%` is its own byte string -/
theorem unqBytes_plain (s : Str) (h : ∀ c ∈ s, c ≠ '%') : unqBytes s = s.map byteOf := by
  induction s with
  | nil => simp [unqBytes]
  | cons c t ih =>
    rw [unqBytes_cons_ne c t (h c (by simp)), ih (fun x hx => h x (by simp [hx]))]
    simp

theorem utf8enc_ascii_char (c : Char) (h : isAscii c = true) : utf8enc [c] = [byteOf c] := by
  have h1 : c.utf8Size = 1 := by
    simp only [isAscii, decide_eq_true_eq] at h
    simp only [Char.utf8Size]
    have : c.val.toNat < 128 := h
    split
    · rfl
    · rename_i h2; exact absurd (by simp [UInt32.le_iff_toNat_le]; omega) h2
  simp [utf8enc, String.utf8EncodeChar_eq_singleton h1, byteOf]
  rfl

/-! ### form-encodings -/

/-- `h1 h2` are the two hex digits (either case) of the byte -/
def HexOf (b : UInt8) (h1 h2 : Char) : Prop :=
  hexVal h1 = some (b.toNat / 16) ∧ hexVal h2 = some (b.toNat % 16)

/-- every byte written as `%XY` -/
inductive PctEnc : Bytes → Str → Prop
  | nil : PctEnc [] []
  | cons (b : UInt8) (h1 h2 : Char) (bs : Bytes) (e : Str) :
      HexOf b h1 h2 → PctEnc bs e → PctEnc (b :: bs) ('%' :: h1 :: h2 :: e)

/-- the characters a client may leave as they are: ASCII, not a separator, not white space -/
def rawOK (c : Char) : Bool :=
  isAscii c && c != '&' && c != '=' && c != '+' && c != '%' && !HeaderValue.isSpace c

/-- `e` is a form-encoding of the character: itself, `+` for a space, or the `%XY` escapes of its
    UTF-8 bytes (also allowed for characters that need no escaping) -/
inductive EncC : Char → Str → Prop
  | raw (c : Char) : rawOK c = true → EncC c [c]
  | plus : EncC ' ' ['+']
  | pct (c : Char) (e : Str) : PctEnc (utf8enc [c]) e → EncC c e

inductive Enc : Str → Str → Prop
  | nil : Enc [] []
  | cons (c : Char) (s ec es : Str) : EncC c ec → Enc s es → Enc (c :: s) (ec ++ es)

/-- what every character of an encoding looks like -/
def encCharOK (x : Char) : Prop :=
  isAscii x = true ∧ x ≠ '&' ∧ x ≠ '=' ∧ HeaderValue.isSpace x = false

theorem ne_of_toNat {a b : Char} (h : a.toNat ≠ b.toNat) : a ≠ b := fun e => h (by rw [e])

theorem hexVal_some_ok (h : Char) (n : Nat) (hh : hexVal h = some n) :
    isAscii h = true ∧ h ≠ '&' ∧ h ≠ '=' ∧ h ≠ '+' ∧ h ≠ '%' ∧ HeaderValue.isSpace h = false := by
  have hb : (48 ≤ h.toNat ∧ h.toNat ≤ 57) ∨ (97 ≤ h.toNat ∧ h.toNat ≤ 102) ∨ (65 ≤ h.toNat ∧ h.toNat ≤ 70) := by
    unfold hexVal at hh
    simp only [Char.le_def, UInt32.le_iff_toNat_le] at hh
    split at hh
    · left; rename_i h1; exact h1
    · split at hh
      · right; left; rename_i h1; exact h1
      · split at hh
        · right; right; rename_i h1; exact h1
        · cases hh
  refine ⟨?_, ?_, ?_, ?_, ?_, ?_⟩
  · simp [isAscii]; omega
  · apply ne_of_toNat; simp; omega
  · apply ne_of_toNat; simp; omega
  · apply ne_of_toNat; simp; omega
  · apply ne_of_toNat; simp; omega
  · simp [HeaderValue.isSpace]; omega

theorem pctChar_ok : encCharOK '%' ∧ '%' ≠ '+' := by
  refine ⟨⟨by decide, by decide, by decide, by decide⟩, by decide⟩

theorem PctEnc_chars {bs : Bytes} {e : Str} (h : PctEnc bs e) : ∀ x ∈ e, encCharOK x ∧ x ≠ '+' := by
  induction h with
  | nil => simp
  | cons b h1 h2 bs e hx _ ih =>
    intro x hxm
    simp only [List.mem_cons] at hxm
    rcases hxm with rfl | rfl | rfl | hxm
    · exact pctChar_ok
    · have := hexVal_some_ok _ _ hx.1
      exact ⟨⟨this.1, this.2.1, this.2.2.1, this.2.2.2.2.2⟩, this.2.2.2.1⟩
    · have := hexVal_some_ok _ _ hx.2
      exact ⟨⟨this.1, this.2.1, this.2.2.1, this.2.2.2.2.2⟩, this.2.2.2.1⟩
    · exact ih x hxm

theorem plusToSpace_id (e : Str) (h : ∀ x ∈ e, x ≠ '+') : plusToSpace e = e := by
  unfold plusToSpace
  conv => rhs; rw [← List.map_id e]
  apply List.map_congr_left
  intro c hc; simp [h c hc]

theorem plusToSpace_append (a b : Str) : plusToSpace (a ++ b) = plusToSpace a ++ plusToSpace b := by
  simp [plusToSpace]

theorem PctEnc_unq {bs : Bytes} {e : Str} (h : PctEnc bs e) : ∀ r, unqBytes (e ++ r) = bs ++ unqBytes r := by
  induction h with
  | nil => simp
  | cons b h1 h2 bs e hx _ ih =>
    intro r
    simp only [List.cons_append]
    rw [unqBytes_pct h1 h2 _ _ _ hx.1 hx.2, ih r]
    have : UInt8.ofNat (b.toNat / 16 * 16 + b.toNat % 16) = b := by
      rw [Nat.div_add_mod']
      simp
    rw [this]

theorem PctEnc_ne_nil {bs : Bytes} {e : Str} (h : PctEnc bs e) (hb : bs ≠ []) : e ≠ [] := by
  cases h with
  | nil => exact absurd rfl hb
  | cons => simp

theorem utf8enc_char_ne_nil (c : Char) : utf8enc [c] ≠ [] := by
  simp only [utf8enc, List.flatMap_cons, List.flatMap_nil, List.append_nil]
  intro h
  have := String.length_utf8EncodeChar c
  rw [h] at this
  have := c.utf8Size_pos
  simp at *

theorem utf8enc_cons (c : Char) (s : Str) : utf8enc (c :: s) = utf8enc [c] ++ utf8enc s := by
  simp [utf8enc]

theorem EncC_unq {c : Char} {ec : Str} (h : EncC c ec) :
    ∀ r, unqBytes (plusToSpace ec ++ r) = utf8enc [c] ++ unqBytes r := by
  intro r
  cases h with
  | raw _ hr =>
    simp only [rawOK, Bool.and_eq_true, bne_iff_ne, ne_eq, Bool.not_eq_true'] at hr
    obtain ⟨⟨⟨⟨⟨ha, _⟩, _⟩, hp⟩, hq⟩, _⟩ := hr
    have h1 : plusToSpace [c] = [c] := plusToSpace_id _ (by simpa using hp)
    rw [h1, utf8enc_ascii_char c ha]
    simpa using unqBytes_cons_ne c r hq
  | plus =>
    have h1 : plusToSpace ['+'] = [' '] := by decide
    rw [h1, utf8enc_ascii_char ' ' (by decide)]
    simpa using unqBytes_cons_ne ' ' r (by decide)
  | pct _ _ hp =>
    rw [plusToSpace_id _ (fun x hx => (PctEnc_chars hp x hx).2)]
    exact PctEnc_unq hp r

theorem Enc_unq {s e : Str} (h : Enc s e) : ∀ r, unqBytes (plusToSpace e ++ r) = utf8enc s ++ unqBytes r := by
  induction h with
  | nil => intro r; simp [plusToSpace, utf8enc]
  | cons c s ec es hc _ ih =>
    intro r
    rw [plusToSpace_append, List.append_assoc, EncC_unq hc, ih r, utf8enc_cons c s, List.append_assoc]

theorem EncC_chars {c : Char} {ec : Str} (h : EncC c ec) : ∀ x ∈ ec, encCharOK x := by
  cases h with
  | raw _ hr =>
    simp only [rawOK, Bool.and_eq_true, bne_iff_ne, ne_eq, Bool.not_eq_true'] at hr
    obtain ⟨⟨⟨⟨⟨ha, h1⟩, h2⟩, _⟩, _⟩, h5⟩ := hr
    intro x hx
    simp only [List.mem_singleton] at hx
    subst hx
    exact ⟨ha, h1, h2, h5⟩
  | plus =>
    intro x hx
    simp only [List.mem_singleton] at hx
    subst hx
    exact ⟨by decide, by decide, by decide, by decide⟩
  | pct _ _ hp => exact fun x hx => (PctEnc_chars hp x hx).1

theorem Enc_chars {s e : Str} (h : Enc s e) : ∀ x ∈ e, encCharOK x := by
  induction h with
  | nil => simp
  | cons c s ec es hc _ ih =>
    intro x hx
    rcases List.mem_append.1 hx with hx | hx
    · exact EncC_chars hc x hx
    · exact ih x hx

theorem EncC_ne_nil {c : Char} {ec : Str} (h : EncC c ec) : ec ≠ [] := by
  cases h with
  | raw => simp
  | plus => simp
  | pct _ _ hp => exact PctEnc_ne_nil hp (utf8enc_char_ne_nil c)

theorem Enc_nil_iff {s e : Str} (h : Enc s e) : e = [] ↔ s = [] := by
  cases h with
  | nil => simp
  | cons c s ec es hc _ =>
    have := EncC_ne_nil hc
    simp [this]

/-- an ASCII string decodes to itself -/
theorem utf8dec_ascii (e : Str) (h : ∀ x ∈ e, isAscii x = true) : utf8dec (e.map byteOf) = some e := by
  have : e.map byteOf = utf8enc e := by
    induction e with
    | nil => simp [utf8enc]
    | cons c t ih =>
      rw [utf8enc_cons, utf8enc_ascii_char c (h c (by simp)), List.map_cons,
        ih (fun x hx => h x (by simp [hx]))]
      simp
  rw [this]
  exact Poor.Props.C14.utf8dec_utf8enc e

theorem takeWhile_all (p : α → Bool) (l : List α) (h : ∀ x ∈ l, p x = true) : l.takeWhile p = l := by
  induction l with
  | nil => simp
  | cons a t ih => simp [List.takeWhile, h a (by simp), ih (fun x hx => h x (by simp [hx]))]

theorem dropWhile_all (p : α → Bool) (l : List α) (h : ∀ x ∈ l, p x = true) : l.dropWhile p = [] := by
  induction l with
  | nil => simp
  | cons a t ih => simp [List.dropWhile, h a (by simp), ih (fun x hx => h x (by simp [hx]))]

/-- on an all-ASCII string `unquote` is: percent-decode, then UTF-8 decode -/
theorem unquote_ascii (e : Str) (h : ∀ x ∈ e, isAscii x = true) : unquote e = utf8dec (unqBytes e) := by
  unfold unquote
  split
  · cases e with
    | nil => simp at *
    | cons c t =>
      rw [unqRuns]
      simp only [h c (by simp), if_true]
      rw [takeWhile_all isAscii (c :: t) h, dropWhile_all isAscii (c :: t) h, unqRuns]
      cases utf8dec (unqBytes (c :: t)) <;> simp
  · rename_i hp
    have hp' : ∀ c ∈ e, c ≠ '%' := by
      intro c hc heq
      apply hp
      subst heq
      simpa using hc
    rw [unqBytes_plain e hp', utf8dec_ascii e h]

/-- **decoding an encoding**: whatever mix of raw characters, `+` and upper/lower-case escapes the
    client chose, `unquote(s.replace('+', ' '))` returns the text that was encoded -/
theorem unquote_Enc {s e : Str} (h : Enc s e) : unquote (plusToSpace e) = some s := by
  have hascii : ∀ x ∈ plusToSpace e, isAscii x = true := by
    intro x hx
    simp only [plusToSpace, List.mem_map] at hx
    obtain ⟨y, hy, rfl⟩ := hx
    split
    · decide
    · exact (Enc_chars h y hy).1
  rw [unquote_ascii _ hascii]
  have := Enc_unq h []
  simp only [List.append_nil, unqBytes] at this
  rw [this]
  exact Poor.Props.C14.utf8dec_utf8enc s

/-! ### whole query strings -/

/-- `f` is `ek=ev` for encodings of the key and the value -/
def FieldEnc (kv : Str × Str) (f : Str) : Prop :=
  ∃ ek ev, Enc kv.1 ek ∧ Enc kv.2 ev ∧ f = ek ++ '=' :: ev

inductive EncFields : Pairs → List Str → Prop
  | nil : EncFields [] []
  | cons (kv : Str × Str) (f : Str) (ps : Pairs) (fs : List Str) :
      FieldEnc kv f → EncFields ps fs → EncFields (kv :: ps) (f :: fs)

/-- what `parse_qsl` is required to return: everything, or everything with a non-blank value -/
def kept (keep : Bool) (ps : Pairs) : Pairs := if keep then ps else ps.filter fun kv => !kv.2.isEmpty

theorem partEq_field (ek ev : Str) (h : ∀ x ∈ ek, x ≠ '=') : partEq (ek ++ '=' :: ev) = (ek, some ev) := by
  unfold partEq
  have h1 : (ek ++ '=' :: ev).dropWhile (· != '=') = '=' :: ev := by
    induction ek with
    | nil => simp [List.dropWhile]
    | cons c t ih =>
      have hc : (c != '=') = true := by simpa using h c (by simp)
      simp only [List.cons_append, List.dropWhile, hc]
      exact ih (fun x hx => h x (by simp [hx]))
  have h2 : (ek ++ '=' :: ev).takeWhile (· != '=') = ek := by
    clear h1
    induction ek with
    | nil => simp [List.takeWhile]
    | cons c t ih =>
      have hc : (c != '=') = true := by simpa using h c (by simp)
      simp only [List.cons_append, List.takeWhile, hc]
      rw [ih (fun x hx => h x (by simp [hx]))]
  rw [h1, h2]

theorem parseField_enc (keep strict : Bool) (kv : Str × Str) (f : Str) (h : FieldEnc kv f) :
    parseField keep strict f = .ok (if !kv.2.isEmpty || keep then some kv else none) := by
  obtain ⟨ek, ev, hk, hv, rfl⟩ := h
  unfold parseField
  have hne : (ek ++ '=' :: ev).isEmpty = false := by simp
  rw [hne, partEq_field ek ev (fun x hx => (Enc_chars hk x hx).2.2.1)]
  simp only [Bool.false_and, Bool.false_eq_true, if_false]
  have hev : ev.isEmpty = kv.2.isEmpty := by
    have := Enc_nil_iff hv
    cases hev : ev <;> cases hkv : kv.2 <;> simp_all
  rw [hev, unquote_Enc hk, unquote_Enc hv]
  cases hc : (!kv.2.isEmpty || keep) <;> simp

theorem field_no_amp (kv : Str × Str) (f : Str) (h : FieldEnc kv f) : '&' ∉ f := by
  obtain ⟨ek, ev, hk, hv, rfl⟩ := h
  intro hm
  simp only [List.mem_append, List.mem_cons] at hm
  rcases hm with hm | hm | hm
  · exact (Enc_chars hk _ hm).2.1 rfl
  · exact absurd hm (by decide)
  · exact (Enc_chars hv _ hm).2.1 rfl

theorem collect_enc (keep strict : Bool) {ps : Pairs} {fs : List Str} (h : EncFields ps fs) :
    collect (fs.map (parseField keep strict)) = .ok (kept keep ps) := by
  induction h with
  | nil => cases keep <;> simp [collect, kept]
  | cons kv f ps fs hf _ ih =>
    simp only [List.map_cons, parseField_enc keep strict kv f hf, collect, ih]
    cases keep <;> cases hkv : kv.2.isEmpty <;> simp [kept, List.filter, hkv]

theorem parseQsl_enc (keep strict : Bool) {ps : Pairs} {fs : List Str} (h : EncFields ps fs) :
    parseQsl keep strict (['&'].intercalate fs) = .ok (kept keep ps) := by
  cases h with
  | nil => cases keep <;> simp [parseQsl, kept]
  | cons kv f ps' fs' hf hrest =>
    have hall : ∀ l ∈ f :: fs', '&' ∉ l := by
      intro l hl
      have : ∀ {ps : Pairs} {fs : List Str}, EncFields ps fs → ∀ l ∈ fs, '&' ∉ l := by
        intro ps fs h
        induction h with
        | nil => simp
        | cons kv f _ _ hf _ ih =>
          intro l hl
          rcases List.mem_cons.1 hl with rfl | hl
          · exact field_no_amp kv _ hf
          · exact ih l hl
      exact this (EncFields.cons kv f ps' fs' hf hrest) l hl
    have hne : (['&'].intercalate (f :: fs')).isEmpty = false := by
      obtain ⟨ek, ev, _, _, rfl⟩ := hf
      cases fs' <;> cases ek <;> simp [List.intercalate]
    unfold parseQsl
    rw [hne]
    simp only [Bool.false_eq_true, if_false]
    rw [List.splitOn_intercalate '&' hall (by simp)]
    exact collect_enc keep strict (EncFields.cons kv f ps' fs' hf hrest)

/-! ### the canonical encoder -/

theorem hexVal_hexUp (n : Nat) (h : n < 16) : hexVal (hexUp n) = some n := by
  have : ∀ m : Fin 16, hexVal (hexUp m.val) = some m.val := by decide
  exact this ⟨n, h⟩

theorem PctEnc_pct (bs : Bytes) : PctEnc bs (bs.flatMap pct) := by
  induction bs with
  | nil => exact PctEnc.nil
  | cons b t ih =>
    simp only [List.flatMap_cons, pct, List.cons_append, List.nil_append]
    refine PctEnc.cons b _ _ t _ ⟨hexVal_hexUp _ ?_, hexVal_hexUp _ ?_⟩ ih
    · have := b.toNat_lt; omega
    · omega

theorem isSafe_rawOK (c : Char) (h : isSafe c = true) : rawOK c = true := by
  have hb : (65 ≤ c.toNat ∧ c.toNat ≤ 90) ∨ (97 ≤ c.toNat ∧ c.toNat ≤ 122) ∨ (48 ≤ c.toNat ∧ c.toNat ≤ 57)
      ∨ c.toNat = 95 ∨ c.toNat = 46 ∨ c.toNat = 45 ∨ c.toNat = 126 := by
    simp only [isSafe, Bool.or_eq_true, Bool.and_eq_true, decide_eq_true_eq, Char.le_def,
      UInt32.le_iff_toNat_le] at h
    rcases h with (((((h | h) | h) | h) | h) | h) | h
    · left; exact h
    · right; left; exact h
    · right; right; left; exact h
    · right; right; right; left; rw [h]; rfl
    · right; right; right; right; left; rw [h]; rfl
    · right; right; right; right; right; left; rw [h]; rfl
    · right; right; right; right; right; right; rw [h]; rfl
  simp only [rawOK, Bool.and_eq_true, bne_iff_ne, ne_eq, Bool.not_eq_true']
  refine ⟨⟨⟨⟨⟨?_, ?_⟩, ?_⟩, ?_⟩, ?_⟩, ?_⟩
  · simp [isAscii]; omega
  · apply ne_of_toNat; simp; omega
  · apply ne_of_toNat; simp; omega
  · apply ne_of_toNat; simp; omega
  · apply ne_of_toNat; simp; omega
  · simp [HeaderValue.isSpace]; omega

theorem quoteChar_EncC (c : Char) : EncC c (quoteChar c) := by
  unfold quoteChar
  split
  · rename_i h; subst h; exact EncC.plus
  · split
    · rename_i h; exact EncC.raw c (isSafe_rawOK c h)
    · exact EncC.pct c _ (PctEnc_pct _)

/-- `quote_plus` produces one of the admissible encodings -/
theorem quotePlus_Enc (s : Str) : Enc s (quotePlus s) := by
  induction s with
  | nil => exact Enc.nil
  | cons c t ih =>
    simp only [quotePlus, List.flatMap_cons]
    exact Enc.cons c t _ _ (quoteChar_EncC c) ih

theorem urlencode_EncFields (ps : Pairs) : EncFields ps (ps.map encPair) := by
  induction ps with
  | nil => exact EncFields.nil
  | cons kv t ih =>
    exact EncFields.cons kv _ t _ ⟨_, _, quotePlus_Enc kv.1, quotePlus_Enc kv.2, rfl⟩ ih

/-! ### grouping (`parse_qs`) and `Args` -/

theorem groupAdd_keys (d : List (Str × List Str)) (kv : Str × Str) :
    (groupAdd d kv).map (·.1) = addKey (d.map (·.1)) kv.1 := by
  unfold groupAdd addKey
  have hany : d.any (fun e => e.1 == kv.1) = (d.map (·.1)).contains kv.1 := by
    induction d with
    | nil => simp
    | cons e t ih =>
      simp only [List.any_cons, ih, List.map_cons, List.contains_cons]
      rw [Bool.beq_comm]
  rw [hany]
  split
  · simp only [List.map_map]
    apply List.map_congr_left
    intro e _
    simp only [Function.comp]
    split <;> rfl
  · simp

theorem group_keys_aux (ps : Pairs) (d : List (Str × List Str)) :
    (ps.foldl groupAdd d).map (·.1) = ps.foldl (fun acc kv => addKey acc kv.1) (d.map (·.1)) := by
  induction ps generalizing d with
  | nil => rfl
  | cons kv t ih => simp only [List.foldl_cons, ih, groupAdd_keys]

/-- the keys of `parse_qs` are the field names in first-seen order -/
theorem group_keys (ps : Pairs) : (group ps).map (·.1) = fsKeys ps := by
  simpa [group, fsKeys] using group_keys_aux ps []

theorem dictGet_groupAdd (d : List (Str × List Str)) (kv : Str × Str) (k : Str) :
    dictGet (groupAdd d kv) k =
      if kv.1 == k then some ((dictGet d k).getD [] ++ [kv.2]) else dictGet d k := by
  unfold groupAdd dictGet
  by_cases hany : d.any (fun e => e.1 == kv.1) = true
  · rw [if_pos hany, List.find?_map]
    have hcomp : ((fun e : Str × List Str => e.1 == k) ∘ fun e : Str × List Str =>
        if e.1 == kv.1 then (e.1, e.2 ++ [kv.2]) else e) = fun e => e.1 == k := by
      funext e; simp only [Function.comp]; split <;> rfl
    rw [hcomp]
    by_cases hk : kv.1 = k
    · subst hk
      simp only [beq_self_eq_true, if_true]
      obtain ⟨e, he, hek⟩ := List.any_eq_true.1 hany
      cases hf : d.find? (fun e => e.1 == kv.1) with
      | none =>
        have := List.find?_eq_none.1 hf e he
        simp [hek] at this
      | some e' =>
        have h1 : e'.1 = kv.1 := by simpa using List.find?_some hf
        simp [h1]
    · have hk' : (kv.1 == k) = false := by simpa using hk
      simp only [hk', Bool.false_eq_true, if_false]
      cases hf : d.find? (fun e => e.1 == k) with
      | none => simp
      | some e' =>
        have h1 := List.find?_some hf
        have h2 : e'.1 = k := by simpa using h1
        have : ¬ e'.1 = kv.1 := by
          rw [h2]; exact fun h => hk h.symm
        simp [this]
  · rw [if_neg hany, List.find?_append]
    by_cases hk : kv.1 = k
    · subst hk
      have : d.find? (fun e => e.1 == kv.1) = none := by
        apply List.find?_eq_none.2
        intro e he hek
        exact hany (List.any_eq_true.2 ⟨e, he, hek⟩)
      simp [this]
    · have hk' : (kv.1 == k) = false := by simpa using hk
      simp [hk']

theorem fsFound_cons (kv : Str × Str) (ps : Pairs) (k : Str) :
    fsFound (kv :: ps) k = if kv.1 == k then kv.2 :: fsFound ps k else fsFound ps k := by
  unfold fsFound
  simp only [List.filter_cons]
  split <;> simp

theorem group_get_aux (ps : Pairs) (d : List (Str × List Str)) (k : Str) :
    dictGet (ps.foldl groupAdd d) k =
      if (dictGet d k).isNone && (fsFound ps k).isEmpty then none
      else some ((dictGet d k).getD [] ++ fsFound ps k) := by
  induction ps generalizing d with
  | nil =>
    simp only [List.foldl_nil, fsFound, List.filter_nil, List.map_nil, List.isEmpty_nil, Bool.and_true,
      List.append_nil]
    cases dictGet d k <;> simp
  | cons kv t ih =>
    rw [List.foldl_cons, ih, dictGet_groupAdd, fsFound_cons]
    by_cases hk : (kv.1 == k) = true
    · simp [hk]
    · simp [hk]

/-- `parse_qs(...)[k]` is the list of the values sent under `k`, in order; absent if there are none -/
theorem group_get (ps : Pairs) (k : Str) :
    dictGet (group ps) k = if (fsFound ps k).isEmpty then none else some (fsFound ps k) := by
  simpa [group, dictGet] using group_get_aux ps [] k

theorem mkArgs_get (ps : Pairs) (k : Str) :
    dictGet (mkArgs ps) k = if (fsFound ps k).isEmpty then none else some (collapse (fsFound ps k)) := by
  have := group_get ps k
  unfold dictGet mkArgs at *
  rw [List.find?_map]
  have hcomp : ((fun e : Str × V => e.1 == k) ∘ fun e : Str × List Str => (e.1, collapse e.2)) =
      fun e => e.1 == k := by
    funext e; rfl
  rw [hcomp]
  cases hf : (group ps).find? (fun e => e.1 == k) with
  | none => rw [hf] at this; simp at this; simp [← this]
  | some e => rw [hf] at this; simp at this; simp [this.1, this.2]

/-! ### `Request.read` in pieces -/

theorem reqRead_conserve (s : RdSt) (k : Option Nat) : (reqRead s k).1 ++ (reqRead s k).2.src = s.src := by
  simp only [reqRead, List.take_append_drop]

theorem reqRead_len (s : RdSt) (k : Option Nat) :
    (reqRead s k).1.length + (reqRead s k).2.todo = s.todo := by
  have : (reqRead s k).1.length ≤ s.todo := by
    simp only [reqRead, List.length_take]
    cases k <;> simp <;> omega
  show (reqRead s k).1.length + (s.todo - (reqRead s k).1.length) = s.todo
  omega

/-- **the pieces are consecutive pieces of the stream, and together never exceed the declared length** -/
theorem reqReads_spec (s : RdSt) (ks : List (Option Nat)) :
    (reqReads s ks).1.flatten ++ (reqReads s ks).2.src = s.src ∧
    (reqReads s ks).1.flatten.length + (reqReads s ks).2.todo = s.todo := by
  induction ks generalizing s with
  | nil => simp [reqReads]
  | cons k ks ih =>
    obtain ⟨h1, h2⟩ := ih (reqRead s k).2
    have c1 := reqRead_conserve s k
    have c2 := reqRead_len s k
    simp only [reqReads, List.flatten_cons, List.append_assoc, List.length_append]
    refine ⟨by rw [h1, c1], by omega⟩

/-- what a handler gets by any sequence of `req.read` calls is a prefix of the first `Content-Length` bytes -/
theorem reqReads_prefix (cl : Nat) (src : Bytes) (ks : List (Option Nat)) :
    (reqReads ⟨cl, src⟩ ks).1.flatten <+: src.take cl := by
  obtain ⟨h1, h2⟩ := reqReads_spec ⟨cl, src⟩ ks
  simp only at h1 h2
  have hl : (reqReads ⟨cl, src⟩ ks).1.flatten.length ≤ cl := by omega
  generalize (reqReads ⟨cl, src⟩ ks).1.flatten = a at h1 hl
  generalize (reqReads ⟨cl, src⟩ ks).2.src = b at h1
  subst h1
  have e : a = (a ++ b).take a.length := by simp
  have := List.take_prefix_take_left (l := a ++ b) hl
  rw [← e] at this
  exact this

/-- a read without size delivers all that is left of the declared body (when the stream has it) -/
theorem reqRead_all (s : RdSt) (h : s.todo ≤ s.src.length) :
    (reqRead s none).1 = s.src.take s.todo ∧ (reqRead s none).2.todo = 0 := by
  simp [reqRead, List.length_take]
  omega


end Poor.Query
