import PoorModel.ReadAll
/- read_length (fieldstorage.py): a body arriving in pieces is read to its declared length. -/
namespace Poor.ReadAll

theorem grant_le (i : In) (k : Nat) : i.grant k ≤ k := by
  unfold In.grant; split <;> omega

theorem grant_pos (i : In) {k : Nat} (h : 0 < k) : 0 < i.grant k := by
  unfold In.grant; split <;> omega

@[simp] theorem read_fst (i : In) (k : Nat) : (i.read k).1 = i.src.take (i.grant k) := rfl
@[simp] theorem read_src (i : In) (k : Nat) : (i.read k).2.src = i.src.drop (i.grant k) := rfl

/-- the loop keeps `data ++ unread input` and ends with the first `length` bytes of it -/
theorem loop_spec (length : Nat) (src0 : Bytes) :
    ∀ (data : Bytes) (i : In), data ++ i.src = src0 → data.length ≤ length → data ≠ [] →
      (loop length data i).1 = src0.take length ∧ (loop length data i).2.src = src0.drop length := by
  intro data i
  induction hm : length - data.length using Nat.strongRecOn generalizing data i with
  | _ m ih =>
    intro hcat hlen hne
    rw [loop.eq_def]
    by_cases hlt : data.length < length
    · rw [dif_pos ⟨hne, hlt⟩]
      have hk : 0 < length - data.length := by omega
      by_cases hmore : (i.read (length - data.length)).1 = []
      · rw [if_pos hmore]
        -- nothing came although at least one byte was granted: the input is at its end
        have hsrc : i.src = [] := by
          rw [read_fst, List.take_eq_nil_iff] at hmore
          rcases hmore with h0 | h0
          · have := grant_pos i hk; omega
          · exact h0
        subst hcat
        simp only [hsrc, List.append_nil, read_src, List.drop_nil]
        have hl : data.length ≤ length := hlen
        constructor
        · rw [List.take_of_length_le hl]
        · rw [List.drop_eq_nil_of_le hl]
      · rw [if_neg hmore]
        have hg := grant_le i (length - data.length)
        have hposlen : 0 < (i.read (length - data.length)).1.length := by
          cases hc : (i.read (length - data.length)).1 with
          | nil => exact absurd hc hmore
          | cons a l => simp
        refine ih (length - (data ++ (i.read (length - data.length)).1).length) ?_ _ _ rfl ?_ ?_ ?_
        · simp only [List.length_append]; omega
        · rw [read_fst, read_src, List.append_assoc, List.take_append_drop]; exact hcat
        · simp only [List.length_append, read_fst, List.length_take]; omega
        · simp [hne]
    · rw [dif_neg (by intro h; exact hlt h.2)]
      have he : data.length = length := by omega
      subst hcat
      constructor
      · rw [← he, List.take_left']; rfl
      · rw [← he, List.drop_left']; rfl

/-- **read_length.**  Whatever the pieces the input hands over, the result is the first `length` bytes of it
    (all of it when it is shorter) and the input is left exactly behind them. -/
theorem readLength_spec (i : In) (length : Nat) :
    (readLength i length).1 = i.src.take length ∧ (readLength i length).2.src = i.src.drop length := by
  unfold readLength
  by_cases hne : (i.read length).1 = []
  · -- the first read brought nothing: length 0 or an input at its end
    rw [loop.eq_def, dif_neg (by intro h; exact h.1 hne)]
    rw [read_fst, List.take_eq_nil_iff] at hne
    simp only [read_fst, read_src]
    rcases hne with h0 | h0
    · have hl : length = 0 := by
        rcases Nat.eq_zero_or_pos length with h | h
        · exact h
        · have := grant_pos i h; omega
      subst hl
      simp [h0]
    · simp [h0]
  · have hg := grant_le i length
    exact loop_spec length i.src _ _ (by rw [read_fst, read_src, List.take_append_drop])
      (by rw [read_fst, List.length_take]; omega) hne

end Poor.ReadAll
