import PoorModel.Reader
/- helper lemmas for C09 (and the reader contract used by C08) -/
namespace Poor.Reader
open Poor

theorem take_take_drop (l : List α) (m t : Nat) (h : m ≤ t) :
    l.take m ++ (l.drop m).take (t - m) = l.take t := by
  have : l.take t = (l.take t).take m ++ (l.take t).drop m := (List.take_append_drop m _).symm
  rw [this, List.take_take, List.drop_take]
  congr 1
  · congr 1; omega

/-- number of bytes an underlying `read(k)` may deliver -/
def St.cap (s : St) (k : Nat) : Nat := match s.script with | [] => k | x :: _ => min k (x + 1)

theorem cap_le (s : St) (k : Nat) : s.cap k ≤ k := by unfold St.cap; split <;> omega
theorem cap_pos (s : St) (k : Nat) (h : 0 < k) : 0 < s.cap k := by unfold St.cap; split <;> omega

theorem under_fst (s : St) (k : Nat) : (s.under k).1 = s.src.take (s.cap k) := rfl
theorem under_buf (s : St) (k : Nat) : (s.under k).2.buf = s.buf := rfl
theorem under_src (s : St) (k : Nat) : (s.under k).2.src = s.src.drop (s.cap k) := rfl
theorem under_todo (s : St) (k : Nat) : (s.under k).2.todo = s.todo - (s.src.take (s.cap k)).length := rfl
theorem under_log (s : St) (k : Nat) : (s.under k).2.log = (k, s.todo) :: s.log := rfl

/-- an underlying read within the budget moves bytes from the stream to the caller, nothing else -/
theorem under_conserve (s : St) (k : Nat) (hk : k ≤ s.todo) :
    (s.under k).1 ++ (s.under k).2.src.take (s.under k).2.todo = s.src.take s.todo := by
  rw [under_fst, under_src, under_todo]
  have hm : s.cap k ≤ s.todo := Nat.le_trans (cap_le s k) hk
  generalize s.cap k = m at hm
  simp only [List.length_take]
  by_cases hl : m ≤ s.src.length
  · have : min m s.src.length = m := by omega
    rw [this, take_take_drop _ _ _ hm]
  · have h1 : min m s.src.length = s.src.length := by omega
    rw [h1]
    have h2 : s.src.take m = s.src := List.take_of_length_le (by omega)
    have h3 : s.src.drop m = [] := List.drop_eq_nil_of_le (by omega)
    rw [h2, h3]; simp
    by_cases ht : s.todo ≤ s.src.length
    · have : s.todo = s.src.length := by omega
      simp [this]
    · exact (List.take_of_length_le (by omega)).symm

theorem read_conserve (s : St) (size : Nat) :
    (read s size).1 ++ (read s size).2.pending = s.pending := by
  unfold read St.pending
  simp only
  split
  · simp [← List.append_assoc, List.take_append_drop]
  · rename_i h
    have hk : min (s.todo + s.buf.length) size - s.buf.length ≤ s.todo := by omega
    have := under_conserve s _ hk
    simp only [List.nil_append, List.append_assoc]
    rw [this]

theorem fill_pending (s : St) (w : Nat) (hb : s.buf = []) : (s.fill w).pending = s.pending := by
  unfold St.fill St.pending
  simp only
  split
  · simp [hb]
  · have := under_conserve s (min s.todo w) (Nat.min_le_left _ _)
    simp only [hb, List.nil_append]
    exact this

theorem prep_pending (s : St) (w : Nat) : (s.prep w).pending = s.pending := by
  unfold St.prep
  split
  · rename_i h; exact fill_pending s w h
  · rfl

theorem readlineLoop_conserve (size : Nat) (line : Bytes) (s : St) :
    (readlineLoop size line s).1 ++ (readlineLoop size line s).2.pending = line ++ s.pending := by
  fun_induction readlineLoop size line s with
  | case1 line s h => rfl
  | case2 line s h hb => simp [prep_pending]
  | case3 line s h hb hc =>
    have hp := prep_pending s (size - line.length)
    obtain ⟨_, h2⟩ := hc
    cases hbuf : (s.prep (size - line.length)).buf with
    | nil => exact absurd hbuf hb
    | cons a l =>
      rw [hbuf] at h2; simp at h2; subst h2
      rw [← hp]
      simp only [St.pending, hbuf]
      simp
  | case4 line s h hb hc p hf =>
    have hp := prep_pending s (size - line.length)
    rw [← hp]
    simp only [St.pending]
    rw [List.append_assoc line, ← List.append_assoc (List.take _ _), List.take_append_drop]
  | case5 line s h hb hc hf ih =>
    have hp := prep_pending s (size - line.length)
    rw [ih, ← hp]
    simp only [St.pending]
    rw [List.append_assoc line, ← List.append_assoc (List.take _ _), List.take_append_drop]

/-- giving the trailing CR back moves one byte from the result to the front of what is pending -/
theorem giveBack_conserve (sz : Nat) (r : Bytes × St) :
    (giveBack sz r).1 ++ (giveBack sz r).2.pending = r.1 ++ r.2.pending := by
  unfold giveBack
  split
  · rename_i h
    obtain ⟨_, h1, h2, _⟩ := h
    have hne : r.1 ≠ [] := by intro h0; simp [h0] at h1
    have hl : r.1.getLast hne = CR := by
      rw [List.getLast?_eq_getLast hne] at h2
      exact Option.some.inj h2
    have := List.dropLast_concat_getLast hne
    simp only [St.pending]
    conv => rhs; rw [← this, hl]
    simp
  · rfl

theorem giveBack_log (sz : Nat) (r : Bytes × St) : (giveBack sz r).2.log = r.2.log := by
  unfold giveBack; split <;> rfl

theorem giveBack_length (sz : Nat) (r : Bytes × St) : (giveBack sz r).1.length ≤ r.1.length := by
  unfold giveBack; split
  · simp
  · exact Nat.le_refl _

theorem giveBack_nil (sz : Nat) (r : Bytes × St) (h : (giveBack sz r).1 = []) : r.1 = [] := by
  unfold giveBack at h
  split at h
  · rename_i hc
    have h1 := hc.2.1
    have : r.1.dropLast.length = r.1.length - 1 := by simp
    simp only at h
    rw [h] at this
    simp at this
    omega
  · exact h

theorem readline_conserve (s : St) (size : Nat) :
    (readline s size).1 ++ (readline s size).2.pending = s.pending := by
  unfold readline
  rw [giveBack_conserve]
  simpa using readlineLoop_conserve (min size (s.buf.length + s.todo)) [] s

theorem step_conserve (block : Nat) (s : St) (op : Op) :
    (step block s op).1 ++ (step block s op).2.pending = s.pending := by
  cases op with
  | read sz => exact read_conserve s _
  | readline sz => exact readline_conserve s _

theorem run_conserve (block : Nat) (s : St) (ops : List Op) :
    (run block s ops).1.flatten ++ (run block s ops).2.pending = s.pending := by
  induction ops generalizing s with
  | nil => simp [run]
  | cons op ops ih =>
    simp only [run, List.flatten_cons, List.append_assoc]
    rw [ih, step_conserve]


end Poor.Reader

namespace Poor.Reader
open Poor

/-! ### results extend the accumulated line; completeness -/

theorem readlineLoop_prefix (size : Nat) (line : Bytes) (s : St) :
    ∃ x, (readlineLoop size line s).1 = line ++ x := by
  fun_induction readlineLoop size line s with
  | case1 line s h => exact ⟨[], by simp⟩
  | case2 line s h hb => exact ⟨[], by simp⟩
  | case3 line s h hb hc => exact ⟨[LF], rfl⟩
  | case4 line s h hb hc p hf => exact ⟨_, rfl⟩
  | case5 line s h hb hc hf ih =>
    obtain ⟨x, hx⟩ := ih
    exact ⟨_, by rw [hx, List.append_assoc]⟩

theorem pending_ne_nil (s : St) (h : s.pending ≠ []) :
    s.buf ≠ [] ∨ (s.buf = [] ∧ 0 < s.todo ∧ s.src ≠ []) := by
  by_cases hb : s.buf = []
  · right
    refine ⟨hb, ?_, ?_⟩
    · cases ht : s.todo with
      | zero => simp [St.pending, hb, ht] at h
      | succ n => omega
    · intro hs; simp [St.pending, hb, hs] at h
  · exact Or.inl hb

theorem under_ne_nil (s : St) (k : Nat) (hk : 0 < k) (hs : s.src ≠ []) : (s.under k).1 ≠ [] := by
  rw [under_fst]
  have := cap_pos s k hk
  cases hsrc : s.src with
  | nil => exact absurd hsrc hs
  | cons a l =>
    cases hc : s.cap k with
    | zero => omega
    | succ m => simp

theorem len_pos {l : List α} (h : l ≠ []) : 0 < l.length := by
  cases l with
  | nil => exact absurd rfl h
  | cons a t => simp

theorem take_ne_nil {l : List α} {k : Nat} (h : l ≠ []) (hk : 0 < k) : l.take k ≠ [] := by
  cases l with
  | nil => exact absurd rfl h
  | cons a t =>
    cases k with
    | zero => omega
    | succ m => simp

theorem read_complete (s : St) (size : Nat) (hsz : 0 < size) (h : (read s size).1 = []) :
    s.pending = [] := by
  apply Classical.byContradiction
  intro hp
  rcases pending_ne_nil s hp with hb | ⟨hb, ht, hs⟩
  · have hl : 0 < s.buf.length := len_pos hb
    unfold read at h
    simp only at h
    split at h
    · have h' : s.buf.take (min (s.todo + s.buf.length) size) = [] := h
      exact take_ne_nil hb (by omega) h'
    · have h' : s.buf ++ (s.under (min (s.todo + s.buf.length) size - s.buf.length)).1 = [] := h
      simp at h'; exact hb h'.1
  · unfold read at h
    simp only [hb, List.length_nil, Nat.add_zero, List.nil_append] at h
    split at h
    · omega
    · exact under_ne_nil s _ (by omega) hs h

theorem prep_buf_ne_nil (s : St) (w : Nat) (hw : 0 < w) (hp : s.pending ≠ []) :
    (s.prep w).buf ≠ [] := by
  unfold St.prep
  rcases pending_ne_nil s hp with hb | ⟨hb, ht, hs⟩
  · simp [hb]
  · simp only [hb, if_true]
    unfold St.fill
    simp only
    split
    · omega
    · exact under_ne_nil s _ (by omega) hs

theorem readlineLoop_ne_nil (size : Nat) (line : Bytes) (s : St) (hlt : line.length < size)
    (hbuf : (s.prep (size - line.length)).buf ≠ []) : (readlineLoop size line s).1 ≠ [] := by
  fun_cases readlineLoop size line s with
  | case1 h => omega
  | case2 h hb => exact absurd hb hbuf
  | case3 h hb hc => simp
  | case4 h hb hc p hf =>
    intro hx
    have h2 := (List.append_eq_nil_iff.mp hx).2
    exact take_ne_nil hbuf (by omega) h2
  | case5 h hb hc hf =>
    obtain ⟨x, hx⟩ := readlineLoop_prefix size (line ++ (s.prep (size - line.length)).buf.take (size - line.length))
      { s.prep (size - line.length) with buf := (s.prep (size - line.length)).buf.drop (size - line.length) }
    rw [hx]
    intro hx'
    have h1 := (List.append_eq_nil_iff.mp hx').1
    have h2 := (List.append_eq_nil_iff.mp h1).2
    exact take_ne_nil hbuf (by omega) h2

theorem readline_complete (s : St) (size : Nat) (hsz : 0 < size) (h : (readline s size).1 = []) :
    s.pending = [] := by
  apply Classical.byContradiction
  intro hp
  have hpos : 0 < min size (s.buf.length + s.todo) := by
    rcases pending_ne_nil s hp with hb | ⟨hb, ht, hs⟩
    · have := len_pos hb; omega
    · omega
  unfold readline at h
  replace h := giveBack_nil _ _ h
  generalize min size (s.buf.length + s.todo) = sz at h hpos
  exact readlineLoop_ne_nil sz [] s (by simpa using hpos)
    (prep_buf_ne_nil s _ (by simpa using hpos) hp) h

/-! ### budget: the stream is never asked for bytes beyond the declared length -/

def LogOk (s : St) : Prop := ∀ p ∈ s.log, p.1 ≤ p.2

/-- the stream position and the remaining budget always add up to the declared length -/
def Tracks (src0 : Bytes) (n : Nat) (s : St) : Prop :=
  ∃ pre, src0 = pre ++ s.src ∧ pre.length + s.todo = n

def Inv (src0 : Bytes) (n : Nat) (s : St) : Prop := LogOk s ∧ Tracks src0 n s

theorem under_inv (src0 : Bytes) (n : Nat) (s : St) (k : Nat) (hk : k ≤ s.todo) (h : Inv src0 n s) :
    Inv src0 n (s.under k).2 := by
  obtain ⟨hl, pre, hsrc, hn⟩ := h
  refine ⟨?_, pre ++ s.src.take (s.cap k), ?_, ?_⟩
  · intro p hp
    rw [under_log] at hp
    rcases List.mem_cons.mp hp with rfl | hp
    · exact hk
    · exact hl p hp
  · rw [under_src, List.append_assoc, List.take_append_drop]; exact hsrc
  · rw [under_todo]
    have := cap_le s k
    simp only [List.length_append, List.length_take]
    omega

theorem inv_buf (src0 : Bytes) (n : Nat) (s : St) (b : Bytes) (h : Inv src0 n s) :
    Inv src0 n { s with buf := b } := h

theorem read_inv (src0 : Bytes) (n : Nat) (s : St) (size : Nat) (h : Inv src0 n s) :
    Inv src0 n (read s size).2 := by
  unfold read
  simp only
  split
  · exact h
  · exact inv_buf _ _ _ _ (under_inv src0 n s _ (by omega) h)

theorem prep_inv (src0 : Bytes) (n : Nat) (s : St) (w : Nat) (h : Inv src0 n s) :
    Inv src0 n (s.prep w) := by
  unfold St.prep St.fill
  simp only
  split
  · split
    · exact h
    · exact inv_buf _ _ _ _ (under_inv src0 n s _ (Nat.min_le_left _ _) h)
  · exact h

theorem readlineLoop_inv (src0 : Bytes) (n : Nat) (size : Nat) (line : Bytes) (s : St)
    (h : Inv src0 n s) : Inv src0 n (readlineLoop size line s).2 := by
  fun_induction readlineLoop size line s with
  | case1 line s _ => exact h
  | case2 line s _ hb => exact prep_inv _ _ _ _ h
  | case3 line s _ hb hc => exact inv_buf _ _ _ _ (prep_inv _ _ _ _ h)
  | case4 line s _ hb hc p hf => exact inv_buf _ _ _ _ (prep_inv _ _ _ _ h)
  | case5 line s _ hb hc hf ih => exact ih (inv_buf _ _ _ _ (prep_inv _ _ _ _ h))

theorem step_inv (src0 : Bytes) (n block : Nat) (s : St) (op : Op) (h : Inv src0 n s) :
    Inv src0 n (step block s op).2 := by
  cases op with
  | read sz => exact read_inv _ _ _ _ h
  | readline sz =>
    have h1 := readlineLoop_inv src0 n (min (resolve block sz) (s.buf.length + s.todo)) [] s h
    show Inv src0 n (giveBack _ _).2
    unfold giveBack
    split
    · exact inv_buf _ _ _ _ h1
    · exact h1

theorem run_inv (src0 : Bytes) (n block : Nat) (s : St) (ops : List Op) (h : Inv src0 n s) :
    Inv src0 n (run block s ops).2 := by
  induction ops generalizing s with
  | nil => exact h
  | cons op ops ih => simp only [run]; exact ih _ (step_inv _ _ _ _ _ h)

/-! ### bounded number of underlying reads per call -/

theorem prep_log (s : St) (w : Nat) : (s.prep w).log.length ≤ s.log.length + 1 := by
  unfold St.prep St.fill
  simp only
  split
  · split
    · simp
    · simp [under_log]
  · simp

theorem read_reads (s : St) (size : Nat) : (read s size).2.log.length ≤ s.log.length + 1 := by
  unfold read
  simp only
  split
  · simp
  · simp [under_log]

theorem readlineLoop_reads (size : Nat) (line : Bytes) (s : St) :
    (readlineLoop size line s).2.log.length ≤ s.log.length + (size - line.length) := by
  fun_induction readlineLoop size line s with
  | case1 line s h => show s.log.length ≤ _; omega
  | case2 line s h hb =>
    show (s.prep (size - line.length)).log.length ≤ _
    have := prep_log s (size - line.length); omega
  | case3 line s h hb hc =>
    show (s.prep (size - line.length)).log.length ≤ _
    have := prep_log s (size - line.length); omega
  | case4 line s h hb hc p hf =>
    show (s.prep (size - line.length)).log.length ≤ _
    have := prep_log s (size - line.length); omega
  | case5 line s h hb hc hf ih =>
    have hp := prep_log s (size - line.length)
    have hl : 0 < (s.prep (size - line.length)).buf.length := len_pos hb
    refine Nat.le_trans ih ?_
    simp only [List.length_append, List.length_take]
    omega


end Poor.Reader

namespace Poor.Reader
open Poor

/-! ### CRLF structure of readline results -/

/-- `l` contains no CRLF pair at all -/
def NoCRLF (l : Bytes) : Prop := ∀ pre suf, l ≠ pre ++ CR :: LF :: suf

/-- every CRLF pair of `l` is its last two bytes -/
def OnlyFinalCRLF (l : Bytes) : Prop := ∀ pre suf, l = pre ++ CR :: LF :: suf → suf = []

def EndsCRLF (l : Bytes) : Prop := ∃ pre, l = pre ++ [CR, LF]

theorem NoCRLF.onlyFinal {l : Bytes} (h : NoCRLF l) : OnlyFinalCRLF l :=
  fun pre suf e => absurd e (h pre suf)

theorem noCRLF_nil : NoCRLF [] := by
  intro pre suf h
  have := congrArg List.length h
  simp at this

theorem noCRLF_take_of {l : Bytes} (h : NoCRLF l) (k : Nat) : NoCRLF (l.take k) := by
  intro pre suf e
  have : l = pre ++ CR :: LF :: (suf ++ l.drop k) := by
    conv => lhs; rw [← List.take_append_drop k l, e]
    simp
  exact h _ _ this

/-- a CRLF pair in `a ++ b` lies in `a`, in `b`, or across the junction -/
theorem crlf_append_cases {a b pre suf : Bytes} (h : a ++ b = pre ++ CR :: LF :: suf) :
    (∃ x, a = pre ++ CR :: LF :: x ∧ suf = x ++ b) ∨
    (a = pre ++ [CR] ∧ b = LF :: suf) ∨
    (∃ y, pre = a ++ y ∧ b = y ++ CR :: LF :: suf) := by
  rcases List.append_eq_append_iff.mp h with ⟨a', h1, h2⟩ | ⟨c', h1, h2⟩
  · -- pre = a ++ a', b = a' ++ CR::LF::suf
    exact Or.inr (Or.inr ⟨a', h1, h2⟩)
  · -- a = pre ++ c', CR::LF::suf = c' ++ b
    cases c' with
    | nil => exact Or.inr (Or.inr ⟨[], by rw [h1]; simp, by simpa using h2.symm⟩)
    | cons x c'' =>
      simp only [List.cons_append, List.cons.injEq] at h2
      obtain ⟨hx, h2⟩ := h2
      subst hx
      cases c'' with
      | nil => exact Or.inr (Or.inl ⟨h1, by simpa using h2.symm⟩)
      | cons y c3 =>
        simp only [List.cons_append, List.cons.injEq] at h2
        obtain ⟨hy, h2⟩ := h2
        subst hy
        exact Or.inl ⟨c3, h1, h2⟩

theorem getLast?_append_singleton (pre : Bytes) (x : UInt8) : (pre ++ [x]).getLast? = some x := by
  simp

theorem noCRLF_append {a b : Bytes} (ha : NoCRLF a) (hb : NoCRLF b)
    (hj : ¬(a.getLast? = some CR ∧ b.head? = some LF)) : NoCRLF (a ++ b) := by
  intro pre suf h
  rcases crlf_append_cases h with ⟨x, h1, _⟩ | ⟨h1, h2⟩ | ⟨y, _, h2⟩
  · exact ha _ _ h1
  · apply hj; rw [h1, h2]; simp
  · exact hb _ _ h2

theorem onlyFinal_append {a b : Bytes} (ha : NoCRLF a) (hb : OnlyFinalCRLF b)
    (hj : ¬(a.getLast? = some CR ∧ b.head? = some LF)) : OnlyFinalCRLF (a ++ b) := by
  intro pre suf h
  rcases crlf_append_cases h with ⟨x, h1, _⟩ | ⟨h1, h2⟩ | ⟨y, _, h2⟩
  · exact absurd h1 (ha _ _)
  · exfalso; apply hj; rw [h1, h2]; simp
  · exact hb _ _ h2

theorem onlyFinal_append_lf {a : Bytes} (ha : NoCRLF a) : OnlyFinalCRLF (a ++ [LF]) := by
  intro pre suf h
  rcases crlf_append_cases h with ⟨x, h1, _⟩ | ⟨_, h2⟩ | ⟨y, _, h2⟩
  · exact absurd h1 (ha _ _)
  · simpa using h2.symm
  · have := congrArg List.length h2
    simp at this; omega

/-- `find` returns the first CRLF lying entirely in the window -/
theorem findCRLF_some (b : Bytes) (lim p : Nat) (h : findCRLF b lim = some p) :
    p + 2 ≤ lim ∧ p + 2 ≤ b.length ∧ b.take (p + 2) = b.take p ++ [CR, LF] ∧ NoCRLF (b.take (p + 1)) := by
  fun_induction findCRLF b lim generalizing p with
  | case1 a b rest lim hl => simp at h
  | case2 a b rest lim hl hc =>
    simp at h; subst h
    obtain ⟨h1, h2⟩ := hc; subst h1; subst h2
    refine ⟨by omega, by simp, by simp, ?_⟩
    intro pre suf e
    have := congrArg List.length e
    simp at this; omega
  | case3 a b rest lim hl hc ih =>
    simp only [Option.map_eq_some_iff] at h
    obtain ⟨q, hq, rfl⟩ := h
    obtain ⟨i1, i2, i3, i4⟩ := ih q hq
    refine ⟨by omega, by simp at i2 ⊢; omega, ?_, ?_⟩
    · show a :: List.take (q + 2) (b :: rest) = a :: List.take q (b :: rest) ++ [CR, LF]
      rw [i3]; rfl
    · intro pre suf e
      simp only [List.take_succ_cons] at e
      cases pre with
      | nil =>
        simp only [List.nil_append, List.cons.injEq] at e
        obtain ⟨e1, e2⟩ := e
        exact hc ⟨e1, e2.1⟩
      | cons x pre' =>
        simp only [List.cons_append, List.cons.injEq] at e
        exact i4 _ _ e.2
  | case4 b lim hx => simp at h

theorem findCRLF_none (b : Bytes) (lim : Nat) (h : findCRLF b lim = none) : NoCRLF (b.take lim) := by
  fun_induction findCRLF b lim with
  | case1 a b rest lim hl =>
    intro pre suf e
    have := congrArg List.length e
    simp [List.length_take] at this; omega
  | case2 a b rest lim hl hc => simp at h
  | case3 a b rest lim hl hc ih =>
    simp only [Option.map_eq_none_iff] at h
    have i := ih h
    intro pre suf e
    cases lim with
    | zero => omega
    | succ l =>
      simp only [List.take_succ_cons] at e
      cases pre with
      | nil =>
        simp only [List.nil_append, List.cons.injEq] at e
        obtain ⟨e1, e2⟩ := e
        cases l with
        | zero => omega
        | succ l' =>
          simp only [List.take_succ_cons, List.cons.injEq] at e2
          exact hc ⟨e1, e2.1⟩
      | cons x pre' =>
        simp only [List.cons_append, List.cons.injEq] at e
        simp only [Nat.add_sub_cancel] at i
        exact i _ _ e.2
  | case4 b lim hx =>
    intro pre suf e
    have hlen := congrArg List.length e
    simp only [List.length_take, List.length_append, List.length_cons] at hlen
    match b, hx with
    | [], _ => simp at hlen
    | [x], _ => simp at hlen; omega
    | a :: c :: r, hx => first | exact hx a c r rfl | exact (hx a c r rfl rfl) | exact (hx a c r rfl lim rfl)


end Poor.Reader

namespace Poor.Reader
open Poor

theorem head?_take_succ (l : Bytes) (k : Nat) : (l.take (k + 1)).head? = l.head? := by
  cases l <;> simp

theorem onlyFinal_take_of_first (b : Bytes) (p : Nat)
    (h3 : b.take (p + 2) = b.take p ++ [CR, LF]) (h4 : NoCRLF (b.take (p + 1))) :
    OnlyFinalCRLF (b.take (p + 2)) := by
  intro pre suf e
  apply Classical.byContradiction
  intro hs
  -- suf ≠ [] : the CRLF pair lies within the first p+1 bytes
  have hsuf : suf = suf.dropLast ++ [suf.getLast hs] := (List.dropLast_concat_getLast hs).symm
  have hlen : (b.take (p + 2)).length = p + 2 := by
    have := congrArg List.length h3
    simp [List.length_take] at this ⊢; omega
  have e' : b.take (p + 2) = (pre ++ CR :: LF :: suf.dropLast) ++ [suf.getLast hs] := by
    rw [e]; conv => lhs; rw [hsuf]
    simp
  have : b.take (p + 1) = pre ++ CR :: LF :: suf.dropLast := by
    have h1 : b.take (p + 1) = (b.take (p + 2)).take (p + 1) := by
      rw [List.take_take]; congr 1; omega
    rw [h1, e']
    have hl2 : (pre ++ CR :: LF :: suf.dropLast).length = p + 1 := by
      have := congrArg List.length e'
      rw [hlen] at this
      simp only [List.length_append, List.length_cons, List.length_nil] at this ⊢
      omega
    rw [List.take_append_of_le_length (by omega)]
    exact List.take_of_length_le (by omega)
  exact h4 _ _ this

/-- results of the loop never contain a CRLF except as their last two bytes -/
theorem readlineLoop_onlyFinal (size : Nat) (line : Bytes) (s : St) (hl : NoCRLF line) :
    OnlyFinalCRLF (readlineLoop size line s).1 := by
  fun_induction readlineLoop size line s with
  | case1 line s h => exact hl.onlyFinal
  | case2 line s h hb => exact hl.onlyFinal
  | case3 line s h hb hc => exact onlyFinal_append_lf hl
  | case4 line s h hb hc p hf =>
    obtain ⟨f1, f2, f3, f4⟩ := findCRLF_some _ _ _ hf
    apply onlyFinal_append hl (onlyFinal_take_of_first _ p f3 f4)
    rw [show p + 2 = (p + 1) + 1 by omega, head?_take_succ]
    exact hc
  | case5 line s h hb hc hf ih =>
    apply ih
    apply noCRLF_append hl (findCRLF_none _ _ hf)
    have hw : size - line.length = (size - line.length - 1) + 1 := by omega
    have := head?_take_succ (s.prep (size - line.length)).buf (size - line.length - 1)
    rw [← hw] at this
    rw [this]
    exact hc

theorem prep_empty_pending (s : St) (w : Nat) (hw : 0 < w) (hb : (s.prep w).buf = []) :
    (s.prep w).pending = [] := by
  unfold St.prep at hb ⊢
  split at hb
  · rename_i h0
    rw [if_pos h0]
    unfold St.fill at hb ⊢
    simp only at hb ⊢
    split at hb
    · rename_i hk
      rw [if_pos hk]
      have : s.todo = 0 := by omega
      simp [St.pending, this]
    · rename_i hk
      rw [if_neg hk]
      have hd : (s.under (min s.todo w)).1 = [] := hb
      rw [under_fst] at hd
      have hc := cap_pos s (min s.todo w) (by omega)
      have hsrc : s.src = [] := by
        cases hs : s.src with
        | nil => rfl
        | cons a l =>
          rw [hs] at hd
          cases hcc : s.cap (min s.todo w) with
          | zero => omega
          | succ m => rw [hcc] at hd; simp at hd
      simp [St.pending, under_src, under_fst, hsrc]
  · rename_i h0; exact absurd hb h0

/-- why a result does not end in CRLF: size limit reached, or the input is exhausted -/
theorem readlineLoop_cut (size : Nat) (line : Bytes) (s : St) :
    EndsCRLF (readlineLoop size line s).1 ∨ size ≤ (readlineLoop size line s).1.length
      ∨ (readlineLoop size line s).2.pending = [] := by
  fun_induction readlineLoop size line s with
  | case1 line s h => exact Or.inr (Or.inl h)
  | case2 line s h hb => exact Or.inr (Or.inr (prep_empty_pending s _ (by omega) hb))
  | case3 line s h hb hc =>
    left
    obtain ⟨h1, _⟩ := hc
    cases hl : line.getLast? with
    | none => rw [hl] at h1; cases h1
    | some x =>
      rw [hl] at h1; cases h1
      obtain ⟨pre, hp⟩ : ∃ pre, line = pre ++ [CR] := by
        refine ⟨line.dropLast, ?_⟩
        have hne : line ≠ [] := by intro h0; simp [h0] at hl
        have := List.dropLast_concat_getLast hne
        rw [List.getLast?_eq_getLast hne] at hl
        simp only [Option.some.injEq] at hl
        rw [hl] at this; exact this.symm
      exact ⟨pre, by rw [hp]; simp⟩
  | case4 line s h hb hc p hf =>
    left
    obtain ⟨f1, f2, f3, f4⟩ := findCRLF_some _ _ _ hf
    exact ⟨line ++ (s.prep (size - line.length)).buf.take p, by rw [f3]; simp⟩
  | case5 line s h hb hc hf ih => exact ih

theorem readlineLoop_length (size : Nat) (line : Bytes) (s : St) (hl : line.length ≤ size) :
    (readlineLoop size line s).1.length ≤ size := by
  fun_induction readlineLoop size line s with
  | case1 line s h => exact hl
  | case2 line s h hb => exact hl
  | case3 line s h hb hc => simp; omega
  | case4 line s h hb hc p hf =>
    obtain ⟨f1, f2, f3, f4⟩ := findCRLF_some _ _ _ hf
    simp [List.length_take]; omega
  | case5 line s h hb hc hf ih =>
    apply ih
    simp [List.length_take]; omega


/-- dropping the held-back CR leaves no CRLF pair at all -/
theorem giveBack_onlyFinal (sz : Nat) (r : Bytes × St) (h : OnlyFinalCRLF r.1) :
    OnlyFinalCRLF (giveBack sz r).1 := by
  unfold giveBack
  split
  · rename_i hc
    have hne : r.1 ≠ [] := by intro h0; have := hc.2.1; simp [h0] at this
    intro pre suf e
    simp only at e
    have h2 := List.dropLast_concat_getLast hne
    rw [e] at h2
    have := h pre (suf ++ [r.1.getLast hne]) (by simpa using h2.symm)
    simp at this
  · exact h

/-- why a `readline` result does not end in CRLF -/
theorem readline_cut (s : St) (size : Nat) :
    EndsCRLF (readline s size).1
    ∨ min size (s.buf.length + s.todo) ≤ (readline s size).1.length
    ∨ (readline s size).2.pending = []
    ∨ ((readline s size).2.buf.head? = some CR ∧
        min size (s.buf.length + s.todo) ≤ (readline s size).1.length + 1) := by
  unfold readline
  generalize hsz : min size (s.buf.length + s.todo) = sz
  have hcut := readlineLoop_cut sz [] s
  unfold giveBack
  split
  · rename_i hc
    obtain ⟨h0, h1, h2, h3⟩ := hc
    right; right; right
    refine ⟨rfl, ?_⟩
    simp only [List.length_dropLast]; omega
  · rcases hcut with h | h | h
    · exact Or.inl h
    · exact Or.inr (Or.inl h)
    · exact Or.inr (Or.inr (Or.inl h))

/-! ### accounting: what a call returns comes off what can still be delivered -/

/-- bytes that can still be delivered at most: buffered plus undelivered budget -/
def St.avail (s : St) : Nat := s.buf.length + s.todo

theorem pending_le_avail (s : St) : s.pending.length ≤ s.avail := by
  unfold St.pending St.avail
  simp only [List.length_append, List.length_take]
  omega

theorem fill_avail (s : St) (w : Nat) (hb : s.buf = []) : (s.fill w).avail = s.avail := by
  unfold St.fill St.avail
  simp only
  split
  · simp [hb]
  · simp only [under_todo, under_fst, hb, List.length_nil, Nat.zero_add]
    have h1 := cap_le s (min s.todo w)
    simp only [List.length_take]
    omega

theorem prep_avail (s : St) (w : Nat) : (s.prep w).avail = s.avail := by
  unfold St.prep
  split
  · rename_i h; exact fill_avail s w h
  · rfl

/-- what a call returns comes off what can still be delivered -/
theorem readlineLoop_avail (size : Nat) (line : Bytes) (s : St) :
    (readlineLoop size line s).2.avail + (readlineLoop size line s).1.length = s.avail + line.length := by
  fun_induction readlineLoop size line s with
  | case1 line s h => rfl
  | case2 line s h hb => rw [prep_avail]
  | case3 line s h hb hc =>
    have := prep_avail s (size - line.length)
    simp only [St.avail, List.length_append, List.length_cons, List.length_nil, List.length_tail] at this ⊢
    have hpos : 0 < (s.prep (size - line.length)).buf.length := by
      cases hbb : (s.prep (size - line.length)).buf with
      | nil => exact absurd hbb hb
      | cons a l => simp
    omega
  | case4 line s h hb hc p hf =>
    have := prep_avail s (size - line.length)
    obtain ⟨f1, f2, f3, f4⟩ := findCRLF_some _ _ _ hf
    simp only [St.avail, List.length_append, List.length_take, List.length_drop] at this ⊢
    omega
  | case5 line s h hb hc hf ih =>
    rw [ih]
    have := prep_avail s (size - line.length)
    simp only [St.avail, List.length_append, List.length_take, List.length_drop] at this ⊢
    omega

theorem giveBack_avail (sz : Nat) (r : Bytes × St) :
    (giveBack sz r).2.avail + (giveBack sz r).1.length = r.2.avail + r.1.length := by
  unfold giveBack
  split
  · rename_i h
    simp only [St.avail, List.length_cons, List.length_dropLast]
    have := h.2.1
    omega
  · rfl

theorem readline_avail (s : St) (size : Nat) :
    (readline s size).2.avail + (readline s size).1.length = s.avail := by
  unfold readline
  rw [giveBack_avail, readlineLoop_avail]
  simp


end Poor.Reader
