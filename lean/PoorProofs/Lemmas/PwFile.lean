import PoorModel.PwFile
/- lemmas about the password-file model (split, lines, strip) -/
namespace Poor.PwFile

theorem splitGo_field (a : Str) : ∀ (cur rest : Str), ':' ∉ a →
    splitGo cur (a ++ ':' :: rest) = (cur.reverse ++ a) :: splitGo [] rest := by
  induction a with
  | nil => intro cur rest _; simp [splitGo]
  | cons c a ih =>
    intro cur rest h
    have hc : c ≠ ':' := by intro e; apply h; simp [e]
    have ha : ':' ∉ a := by intro e; apply h; simp [e]
    simp only [List.cons_append, splitGo, if_neg hc]
    rw [ih (c :: cur) rest ha]
    simp

theorem splitGo_last (a : Str) : ∀ (cur : Str), ':' ∉ a → splitGo cur a = [cur.reverse ++ a] := by
  induction a with
  | nil => intro cur _; simp [splitGo]
  | cons c a ih =>
    intro cur h
    have hc : c ≠ ':' := by intro e; apply h; simp [e]
    have ha : ':' ∉ a := by intro e; apply h; simp [e]
    simp only [splitGo, if_neg hc]
    rw [ih (c :: cur) ha]
    simp

/-- a field: no separator and no line end in it -/
def FieldOK (s : Str) : Prop := ':' ∉ s ∧ '\r' ∉ s ∧ '\n' ∉ s

theorem splitColon_line (e : Entry) (hu : ':' ∉ e.user) (hr : ':' ∉ e.realm) (hd : ':' ∉ e.digest) :
    splitColon (lineText e) = [e.user, e.realm, e.digest] := by
  unfold splitColon lineText
  rw [splitGo_field _ _ _ hu, splitGo_field _ _ _ hr, splitGo_last _ _ hd]
  simp

theorem linesGo_other (cur rest : Str) (c : Char) (h1 : c ≠ '\r') (h2 : c ≠ '\n') :
    linesGo cur (c :: rest) = linesGo (c :: cur) rest := by
  rw [linesGo.eq_def]
  split
  · rename_i h; cases h
  · rename_i h; cases h; exact absurd rfl h1
  · rename_i h; cases h; exact absurd rfl h1
  · rename_i h; cases h; exact absurd rfl h2
  · rename_i h; cases h; rfl

theorem linesGo_lf (body : Str) : ∀ (cur rest : Str), '\r' ∉ body → '\n' ∉ body →
    linesGo cur (body ++ '\n' :: rest) = (cur.reverse ++ body) :: linesGo [] rest := by
  induction body with
  | nil => intro cur rest _ _; simp [linesGo]
  | cons c a ih =>
    intro cur rest h1 h2
    have hc1 : c ≠ '\r' := by intro e; apply h1; simp [e]
    have hc2 : c ≠ '\n' := by intro e; apply h2; simp [e]
    rw [List.cons_append, linesGo_other _ _ _ hc1 hc2, ih _ _ (by intro e; apply h1; simp [e]) (by intro e; apply h2; simp [e])]
    simp

theorem linesGo_crlf (body : Str) : ∀ (cur rest : Str), '\r' ∉ body → '\n' ∉ body →
    linesGo cur (body ++ '\r' :: '\n' :: rest) = (cur.reverse ++ body) :: linesGo [] rest := by
  induction body with
  | nil => intro cur rest _ _; simp [linesGo]
  | cons c a ih =>
    intro cur rest h1 h2
    have hc1 : c ≠ '\r' := by intro e; apply h1; simp [e]
    have hc2 : c ≠ '\n' := by intro e; apply h2; simp [e]
    rw [List.cons_append, linesGo_other _ _ _ hc1 hc2, ih _ _ (by intro e; apply h1; simp [e]) (by intro e; apply h2; simp [e])]
    simp

theorem linesGo_end (body : Str) : ∀ (cur : Str), '\r' ∉ body → '\n' ∉ body → cur.reverse ++ body ≠ [] →
    linesGo cur body = [cur.reverse ++ body] := by
  induction body with
  | nil =>
    intro cur _ _ hne
    have : cur ≠ [] := by intro e; apply hne; simp [e]
    simp [linesGo, this]
  | cons c a ih =>
    intro cur h1 h2 _
    have hc1 : c ≠ '\r' := by intro e; apply h1; simp [e]
    have hc2 : c ≠ '\n' := by intro e; apply h2; simp [e]
    rw [linesGo_other _ _ _ hc1 hc2, ih _ (by intro e; apply h1; simp [e]) (by intro e; apply h2; simp [e]) (by simp)]
    simp

theorem strip_fix (s : Str) (h1 : ∀ c, s.head? = some c → isSpace c = false)
    (h2 : ∀ c, s.getLast? = some c → isSpace c = false) : strip s = s := by
  unfold strip
  have e1 : s.dropWhile isSpace = s := by
    cases s with
    | nil => rfl
    | cons c t => rw [List.dropWhile_cons_of_neg]; simp [h1 c rfl]
  rw [e1]
  have e2 : s.reverse.dropWhile isSpace = s.reverse := by
    cases hs : s.reverse with
    | nil => rfl
    | cons c t =>
      rw [List.dropWhile_cons_of_neg]
      have : s.getLast? = some c := by
        rw [← List.head?_reverse, hs]; rfl
      simp [h2 c this]
  rw [e2, List.reverse_reverse]

end Poor.PwFile
