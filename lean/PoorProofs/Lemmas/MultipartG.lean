import PoorProofs.Lemmas.Multipart
import PoorProofs.Lemmas.Reader
/-
Property C08, reader-independent part: the parser over any reader that honours the line contract
below (`Contract`).  The in-memory reader and the block-caching reader are both instances
(`lfContract`, `cachedContract`), so every theorem here holds for either delivery.
-/
namespace Poor.Multipart
open Poor

/-- no CRLF pair lies inside `a ++ [CR]`: in `a ++ CR :: LF :: b` the shown pair is the first one -/
def FirstCRLF (a : Bytes) : Prop := ∀ pre suf, a ++ [CR] ≠ pre ++ CR :: LF :: suf

/-- what the parser needs of `readline`: `pend r` is what the reader still owes, `Ok` an invariant
    of reader states, `afterCR r` holds of the state reached after a line that ended in CR -/
structure Contract {R : Type} (rd : Rd R) (pend : R → Bytes) (Ok : R → Prop) (afterCR : R → Prop) : Prop where
  /-- a line is a prefix of what is owed; the rest stays owed -/
  conserve : ∀ r cap, Ok r → (rd.line cap r).1 ++ pend (rd.line cap r).2 = pend r ∧ Ok (rd.line cap r).2
  /-- end of input is reported only at the end of input -/
  nonempty : ∀ r cap, Ok r → pend r ≠ [] → (cap = none ∨ cap = some LINE_CAP) → (rd.line cap r).1 ≠ []
  /-- a line never runs past the first CRLF -/
  stop : ∀ r a b, Ok r → pend r = a ++ CR :: LF :: b → FirstCRLF a →
    (rd.line (some LINE_CAP) r).1.length ≤ a.length + 2
  /-- the LF of a CRLF cut in two comes alone -/
  split : ∀ r b, Ok r → afterCR r → pend r = LF :: b → (rd.line (some LINE_CAP) r).1 = [LF]
  after : ∀ r, Ok r → (rd.line (some LINE_CAP) r).1.getLast? = some CR → afterCR (rd.line (some LINE_CAP) r).2
  /-- a line without CR/LF inside is delivered whole, with its CRLF -/
  line_crlf : ∀ r cap a b, Ok r → pend r = a ++ CR :: LF :: b → CR ∉ a → LF ∉ a →
    (cap = none ∨ (cap = some LINE_CAP ∧ a.length + 2 ≤ LINE_CAP)) → (rd.line cap r).1 = a ++ [CR, LF]
  /-- ... and so is an unterminated last line -/
  line_end : ∀ r a, Ok r → pend r = a → CR ∉ a → LF ∉ a → a.length ≤ LINE_CAP →
    (rd.line (some LINE_CAP) r).1 = a

variable {R : Type} {rd : Rd R} {pend : R → Bytes} {Ok : R → Prop} {afterCR : R → Prop}

theorem Contract.rest (h : Contract rd pend Ok afterCR) (r : R) (cap : Option Nat) (hr : Ok r) :
    pend (rd.line cap r).2 = (pend r).drop (rd.line cap r).1.length := by
  have := (h.conserve r cap hr).1
  rw [← this]; simp

/-- the delimiter line itself -/
theorem at_boundaryG (hc : Contract rd pend Ok afterCR) (nb mark eol tail c : Bytes) (hb : BOk nb)
    (hmark : mark = [] ∨ mark = [DASH, DASH]) (heol : eol = [CR, LF] ∨ (eol = [] ∧ tail = []))
    (st : PS) (fuel : Nat) (r : R) (hr : Ok r) (hp : pend r = nb ++ mark ++ eol ++ tail)
    (hout : st.out = c) (hd : st.delim = [CR, LF]) (hlf : st.lfend = true) :
    ∃ r', readLines rd nb (nb ++ [DASH, DASH]) (fuel + 1) st r
        = (c, if mark = [] then Stop.next else Stop.last, r') ∧ pend r' = tail ∧ Ok r' := by
  obtain ⟨p, x, hnb, hx⟩ := hb.last
  have hnbne : nb ≠ [] := by rw [hnb]; simp
  have hmcr : CR ∉ nb ++ mark := by
    intro h
    rcases List.mem_append.1 h with h | h
    · exact hb.nocr h
    · rcases hmark with rfl | rfl <;> simp [DASH, CR] at h
  have hmlf : LF ∉ nb ++ mark := by
    intro h
    rcases List.mem_append.1 h with h | h
    · exact hb.nolf h
    · rcases hmark with rfl | rfl <;> simp [DASH, LF] at h
  have hmlen : mark.length ≤ 2 := by rcases hmark with rfl | rfl <;> simp
  -- the line that is read
  have hline : (rd.line (some LINE_CAP) r).1 = nb ++ mark ++ eol := by
    rcases heol with rfl | ⟨rfl, rfl⟩
    · have e : pend r = (nb ++ mark) ++ CR :: LF :: tail := by rw [hp]; simp
      exact hc.line_crlf r (some LINE_CAP) (nb ++ mark) tail hr e hmcr hmlf (Or.inr ⟨rfl, by
        have := hb.short
        simp only [List.length_append]; omega⟩)
    · have e : pend r = nb ++ mark := by rw [hp]; simp
      simp only [List.append_nil]
      exact hc.line_end r (nb ++ mark) hr e hmcr hmlf (by
        have := hb.short
        simp only [List.length_append]; omega)
  obtain ⟨hcons, hok'⟩ := hc.conserve r (some LINE_CAP) hr
  have hrest : pend (rd.line (some LINE_CAP) r).2 = tail := by
    rw [hline, hp] at hcons
    have : nb ++ mark ++ eol ++ pend (rd.line (some LINE_CAP) r).2 = nb ++ mark ++ eol ++ tail := hcons
    exact List.append_cancel_left this
  obtain ⟨l, hl⟩ : ∃ l, l = (rd.line (some LINE_CAP) r).1 := ⟨_, rfl⟩
  have hl3 : l = nb ++ mark ++ eol := by rw [hl, hline]
  have hlne : l ≠ [] := by rw [hl3]; simp [hnbne]
  obtain ⟨y, ys, hys⟩ : ∃ y ys, l = y :: ys := by
    cases l with
    | nil => exact absurd rfl hlne
    | cons y ys => exact ⟨y, ys, rfl⟩
  have hrd : rd.line (some LINE_CAP) r = (y :: ys, (rd.line (some LINE_CAP) r).2) := by
    rw [← hys, hl]
  refine ⟨(rd.line (some LINE_CAP) r).2, ?_, hrest, hok'⟩
  rw [readLines_step rd nb _ fuel st _ _ y ys hrd]
  have hdcr : st.delim ≠ [CR] := by rw [hd]; decide
  simp only [hdcr, if_false, ← hys]
  have htake : l.take 2 = [DASH, DASH] := by
    rw [hl3, List.append_assoc]; exact take2_append nb _ hb.dash
  have hrs : rstrip l = nb ++ mark := by
    have hlast : ∃ q z, nb ++ mark = q ++ [z] ∧ isWs z = false := by
      rcases hmark with rfl | rfl
      · exact ⟨p, x, by simpa using hnb, hx⟩
      · exact ⟨nb ++ [DASH], DASH, by simp, by decide⟩
    obtain ⟨q, z, hq, hz⟩ := hlast
    rw [hl3]
    rcases heol with rfl | ⟨rfl, rfl⟩
    · have e : nb ++ mark ++ [CR, LF] = (nb ++ mark ++ [CR]) ++ [LF] := by simp
      rw [e, rstrip_append_ws _ LF (by decide), rstrip_append_ws _ CR (by decide), hq]
      exact rstrip_self q z hz
    · simp only [List.append_nil]
      rw [hq]; exact rstrip_self q z hz
  rcases hmark with rfl | rfl
  · simp only [List.append_nil] at hrs
    rw [if_pos ⟨htake, hlf, hrs⟩, hout]
    simp
  · have hne : rstrip l ≠ nb := by
      rw [hrs]; intro h
      have := congrArg List.length h
      simp at this
    rw [if_neg (fun h => hne h.2.2), if_pos ⟨htake, hlf, hrs⟩, hout]
    simp


/-- some CRLF pair exists: then a first one does -/
theorem first_crlf_split (s : Bytes) (h : ∃ x y, s = x ++ CR :: LF :: y) :
    ∃ a b, s = a ++ CR :: LF :: b ∧ FirstCRLF a := by
  obtain ⟨x, y, hxy⟩ := h
  -- induction on the length of the prefix before the known pair
  induction hn : x.length using Nat.strongRecOn generalizing x y with
  | _ n ih =>
    by_cases hf : FirstCRLF x
    · exact ⟨x, y, hxy, hf⟩
    · unfold FirstCRLF at hf
      have : ∃ pre suf, x ++ [CR] = pre ++ CR :: LF :: suf := by
        apply Classical.byContradiction
        intro hne
        apply hf
        intro pre suf he
        exact hne ⟨pre, suf, he⟩
      obtain ⟨pre, suf, he⟩ := this
      -- the earlier pair lies inside x
      have hlen : pre.length + 2 + suf.length = x.length + 1 := by
        have := congrArg List.length he
        simp at this; omega
      have hx : x = pre ++ CR :: LF :: suf.dropLast ∧ suf ≠ [] := by
        cases hs : suf.eq_nil_or_concat with
        | inl h0 =>
          subst h0
          have e2 : x ++ [CR] = (pre ++ [CR]) ++ [LF] := by simpa using he
          have := List.append_inj_right' e2 rfl
          simp [CR, LF] at this
        | inr h1 =>
          obtain ⟨s', z, rfl⟩ := h1
          have e2 : x ++ [CR] = (pre ++ CR :: LF :: s') ++ [z] := by simpa using he
          have := List.append_inj_left' e2 rfl
          exact ⟨by simpa using this, by simp⟩
      obtain ⟨hx1, _⟩ := hx
      have hlt : pre.length < n := by
        rw [← hn, hx1]; simp
      exact ih pre.length hlt pre (suf.dropLast ++ CR :: LF :: y) (by rw [hxy, hx1]; simp) rfl

/-- the content loop over any reader that honours the contract -/
theorem extract_auxG (hc : Contract rd pend Ok afterCR) (nb mark eol tail c : Bytes) (hb : BOk nb)
    (hno : ¬ nb <:+: c)
    (hmark : mark = [] ∨ mark = [DASH, DASH]) (heol : eol = [CR, LF] ∨ (eol = [] ∧ tail = [])) :
    ∀ (n : Nat) (st : PS) (pre post : Bytes) (fuel : Nat) (r : R),
      post.length ≤ n → n < fuel → pre ++ post = c ++ [CR, LF] → st.out ++ st.delim = pre →
      (post = [] → st.delim = [CR, LF] ∧ st.lfend = true) →
      (st.delim = [] → st.out.getLast? ≠ some CR) →
      (st.delim = [CR, LF] ∨ st.delim = [LF] ∨ st.delim = [CR] ∨ st.delim = []) →
      (st.delim = [CR] → afterCR r) →
      Ok r → pend r = post ++ (nb ++ mark ++ eol ++ tail) →
      ∃ r', readLines rd nb (nb ++ [DASH, DASH]) fuel st r
        = (c, if mark = [] then Stop.next else Stop.last, r') ∧ pend r' = tail ∧ Ok r' := by
  intro n
  induction n with
  | zero =>
    intro st pre post fuel r hlen hfuel hsplit hinv hend _ _ _ hr hp
    have hp0 : post = [] := List.length_eq_zero_iff.mp (by omega)
    subst hp0
    obtain ⟨hd, hlf⟩ := hend rfl
    obtain ⟨f, rfl⟩ : ∃ f, fuel = f + 1 := ⟨fuel - 1, by omega⟩
    have hout : st.out = c := by
      rw [hd] at hinv
      simp only [List.append_nil] at hsplit
      rw [hsplit] at hinv
      exact List.append_cancel_right hinv
    exact at_boundaryG hc nb mark eol tail c hb hmark heol st f r hr (by simpa using hp) hout hd hlf
  | succ n ih =>
    intro st pre post fuel r hlen hfuel hsplit hinv hend hcr hdel hacr hr hp
    by_cases hp0 : post = []
    · subst hp0
      obtain ⟨hd, hlf⟩ := hend rfl
      obtain ⟨f, rfl⟩ : ∃ f, fuel = f + 1 := ⟨fuel - 1, by omega⟩
      have hout : st.out = c := by
        rw [hd] at hinv
        simp only [List.append_nil] at hsplit
        rw [hsplit] at hinv
        exact List.append_cancel_right hinv
      exact at_boundaryG hc nb mark eol tail c hb hmark heol st f r hr (by simpa using hp) hout hd hlf
    · obtain ⟨f, rfl⟩ : ∃ f, fuel = f + 1 := ⟨fuel - 1, by omega⟩
      obtain ⟨rest2, hrest2⟩ : ∃ x, x = nb ++ mark ++ eol ++ tail := ⟨_, rfl⟩
      rw [← hrest2] at hp
      obtain ⟨l, hl⟩ : ∃ l, l = (rd.line (some LINE_CAP) r).1 := ⟨_, rfl⟩
      obtain ⟨hcons, hok'⟩ := hc.conserve r (some LINE_CAP) hr
      rw [← hl, hp] at hcons
      have hlne : l ≠ [] := by
        rw [hl]; exact hc.nonempty r (some LINE_CAP) hr (by rw [hp]; simp [hp0]) (Or.inr rfl)
      -- post ends with the structural CRLF, or is its LF alone
      have hpostlast : post.getLast? = some LF := by
        have h1 : (pre ++ post).getLast? = some LF := by rw [hsplit]; simp
        rwa [getLast?_append_ne_nil _ _ hp0] at h1
      have hlen1 : l.length ≤ post.length := by
        by_cases h2 : 2 ≤ post.length
        · -- post = a0 ++ [CR, LF]
          have hends : ∃ a0, post = a0 ++ [CR, LF] := by
            cases hrv : post.reverse with
            | nil => exact absurd (by simpa using hrv) hp0
            | cons z1 zs =>
              cases zs with
              | nil =>
                have : post = [z1] := by have := congrArg List.reverse hrv; simpa using this
                rw [this] at h2; simp at h2
              | cons z2 zs' =>
                have hpz : post = zs'.reverse ++ [z2, z1] := by
                  have := congrArg List.reverse hrv; simpa using this
                have hz1 : (pre ++ zs'.reverse) ++ [z2, z1] = c ++ [CR, LF] := by rw [← hsplit, hpz]; simp
                have hzz : [z2, z1] = [CR, LF] := List.append_inj_right' hz1 rfl
                exact ⟨zs'.reverse, by rw [hpz, hzz]⟩
          obtain ⟨a0, ha0⟩ := hends
          obtain ⟨a, b, hab, hfirst⟩ := first_crlf_split (post ++ rest2) ⟨a0, rest2, by rw [ha0]; simp⟩
          have hstop := hc.stop r a b hr (by rw [hp, hab]) hfirst
          rw [← hl] at hstop
          -- the first pair ends inside post
          have hale : a.length + 2 ≤ post.length := by
            apply Classical.byContradiction
            intro hgt
            -- otherwise the pair at the end of post would come before it
            have hlt : a0.length < a.length := by rw [ha0] at hgt; simp at hgt; omega
            have e : a0 ++ CR :: LF :: rest2 = a ++ CR :: LF :: b := by rw [← hab, ha0]; simp
            -- a = a0 ++ CR :: LF :: s or a = a0 ++ [CR] : both put a CRLF inside a ++ [CR]
            have htake : a.take a0.length = a0 := by
              have := congrArg (List.take a0.length) e
              simpa [List.take_append_of_le_length (Nat.le_of_lt hlt)] using this.symm
            have hdrop : a0 ++ a.drop a0.length = a := by
              have := List.take_append_drop a0.length a
              rw [htake] at this; exact this
            have e' : CR :: LF :: rest2 = a.drop a0.length ++ CR :: LF :: b := by
              have : a0 ++ CR :: LF :: rest2 = a0 ++ (a.drop a0.length ++ CR :: LF :: b) := by
                rw [← List.append_assoc, hdrop]; exact e
              exact List.append_cancel_left this
            have hdl : 0 < (a.drop a0.length).length := by simp; omega
            cases hd1 : a.drop a0.length with
            | nil => rw [hd1] at hdl; simp at hdl
            | cons d1 ds =>
              rw [hd1] at e'
              simp only [List.cons_append, List.cons.injEq] at e'
              obtain ⟨rfl, e''⟩ := e'
              cases ds with
              | nil =>
                simp only [List.nil_append, List.cons.injEq] at e''
                exact absurd e''.1 (by decide)
              | cons d2 ds' =>
                simp only [List.cons_append, List.cons.injEq] at e''
                obtain ⟨rfl, _⟩ := e''
                exact hfirst a0 (ds' ++ [CR]) (by rw [← hdrop, hd1]; simp)
          omega
        · -- post = [LF]: the CR was the end of the line before
          have hp1 : post = [LF] := by
            cases post with
            | nil => exact absurd rfl hp0
            | cons z zs =>
              have hz0 : zs.length = 0 := by
                simp only [List.length_cons] at h2; omega
              have : zs = [] := List.length_eq_zero_iff.mp hz0
              subst this
              simp only [List.getLast?_singleton, Option.some.injEq] at hpostlast
              rw [hpostlast]
          have hprecr : pre = c ++ [CR] := by
            have : pre ++ [LF] = (c ++ [CR]) ++ [LF] := by
              have h5 := hsplit
              rw [hp1] at h5
              simpa using h5
            exact List.append_inj_left' this rfl
          have hdcr : st.delim = [CR] := by
            rcases hdel with h | h | h | h
            · rw [h] at hinv
              have : (st.out ++ [CR, LF]).getLast? = (c ++ [CR]).getLast? := by rw [hinv, hprecr]
              simp [CR, LF] at this
            · rw [h] at hinv
              have : (st.out ++ [LF]).getLast? = (c ++ [CR]).getLast? := by rw [hinv, hprecr]
              simp [CR, LF] at this
            · exact h
            · exfalso
              rw [h] at hinv
              simp only [List.append_nil] at hinv
              apply hcr h
              rw [hinv, hprecr]; simp
          have := hc.split r rest2 hr (hacr hdcr) (by rw [hp, hp1]; simp)
          rw [hl, this, hp1]; simp
      have hpost : post = l ++ post.drop l.length := by
        have h1 : l = (post ++ rest2).take l.length := by
          conv => rhs; rw [← hcons]
          simp
        rw [List.take_append_of_le_length hlen1] at h1
        conv => lhs; rw [← List.take_append_drop l.length post]
        rw [← h1]
      have hrest : pend (rd.line (some LINE_CAP) r).2 = post.drop l.length ++ rest2 := by
        have : l ++ pend (rd.line (some LINE_CAP) r).2 = l ++ (post.drop l.length ++ rest2) := by
          rw [hcons, ← List.append_assoc, ← hpost]
        exact List.append_cancel_left this
      obtain ⟨y, ys, hys⟩ : ∃ y ys, l = y :: ys := by
        cases hcl : l with
        | nil => exact absurd hcl hlne
        | cons y ys => exact ⟨y, ys, rfl⟩
      have hrd : rd.line (some LINE_CAP) r = (y :: ys, (rd.line (some LINE_CAP) r).2) := by
        rw [← hys, hl]
      rw [readLines_step rd nb _ f st _ _ y ys hrd]
      simp only [← hys]
      -- no false delimiter
      have hpostinfix : post <:+: c ++ [CR, LF] := ⟨pre, [], by simpa using hsplit⟩
      have hlpre : l <+: post := ⟨post.drop l.length, hpost.symm⟩
      have hnohit : ∀ z, nb <+: z → ¬ (((if st.delim = [CR] then CR :: l else l).take 2 = [DASH, DASH]) ∧
          st.lfend = true ∧ rstrip (if st.delim = [CR] then CR :: l else l) = z) := by
        intro z hz ⟨h1, _, h3⟩
        by_cases hdc : st.delim = [CR]
        · simp only [hdc, if_true] at h1
          cases hls : l with
          | nil => exact hlne hls
          | cons q qs => rw [hls] at h1; simp [CR, DASH] at h1
        · simp only [hdc, if_false] at h3
          have : z <+: l := by rw [← h3]; exact rstrip_prefix l
          exact no_hit nb c post l hb hno hpostinfix hlpre z hz this
      rw [if_neg (hnohit nb (List.prefix_refl _)), if_neg (hnohit (nb ++ [DASH, DASH]) (List.prefix_append _ _))]
      -- the next state
      obtain ⟨l1, hl1⟩ : ∃ x, x = (if st.delim = [CR] then CR :: l else l) := ⟨_, rfl⟩
      obtain ⟨d0, hd0⟩ : ∃ x, x = (if st.delim = [CR] then [] else st.delim) := ⟨_, rfl⟩
      rw [← hl1, ← hd0]
      subst hrest2
      have hl1ne : l1 ≠ [] := by rw [hl1]; split <;> simp [hlne]
      have hconsS : st.out ++ d0 ++ l1 = pre ++ l := by
        rw [hl1, hd0, ← hinv]
        by_cases hdc : st.delim = [CR]
        · simp [hdc]
        · simp [hdc]
      have hsplit' : (pre ++ l) ++ post.drop l.length = c ++ [CR, LF] := by
        rw [List.append_assoc, ← hpost]; exact hsplit
      have hl1last : l1.getLast? = l.getLast? := by
        rw [hl1]; split
        · rw [show CR :: l = [CR] ++ l by rfl, getLast?_append_ne_nil _ _ hlne]
        · rfl
      apply ih (absorb st l1 d0) (pre ++ l) (post.drop l.length) f (rd.line (some LINE_CAP) r).2
      · have : 0 < l.length := List.length_pos_iff.mpr hlne
        simp only [List.length_drop]; omega
      · omega
      · exact hsplit'
      · simp only [absorb]
        rw [List.append_assoc, stripEnd_split, hconsS]
      · intro hnil
        have hpl : pre ++ l = c ++ [CR, LF] := by simpa [hnil] using hsplit'
        have hends : ∃ t, l1 = t ++ [CR, LF] := by
          cases hl2 : l.reverse with
          | nil => exact absurd (by simpa using hl2) hlne
          | cons z1 zs =>
            have hlz : l = zs.reverse ++ [z1] := by
              have := congrArg List.reverse hl2; simpa using this
            cases zs with
            | nil =>
              simp only [List.reverse_nil, List.nil_append] at hlz
              have hz1 : pre ++ [z1] = (c ++ [CR]) ++ [LF] := by rw [← hlz]; simpa using hpl
              have hz : z1 = LF := by
                have := List.append_inj_right' hz1 rfl; simpa using this
              have hprecr : pre = c ++ [CR] := List.append_inj_left' hz1 rfl
              have hdcr : st.delim = [CR] := by
                rcases hdel with h | h | h | h
                · rw [h] at hinv
                  have : (st.out ++ [CR, LF]).getLast? = (c ++ [CR]).getLast? := by rw [hinv, hprecr]
                  simp [CR, LF] at this
                · rw [h] at hinv
                  have : (st.out ++ [LF]).getLast? = (c ++ [CR]).getLast? := by rw [hinv, hprecr]
                  simp [CR, LF] at this
                · exact h
                · exfalso
                  rw [h] at hinv
                  simp only [List.append_nil] at hinv
                  apply hcr h
                  rw [hinv, hprecr]; simp
              refine ⟨[], ?_⟩
              rw [hl1, hdcr, hlz, hz]; simp
            | cons z2 zs' =>
              have hlz' : l = zs'.reverse ++ [z2, z1] := by rw [hlz]; simp
              have hz1 : (pre ++ zs'.reverse) ++ [z2, z1] = c ++ [CR, LF] := by rw [← hpl, hlz']; simp
              have hzz : [z2, z1] = [CR, LF] := List.append_inj_right' hz1 rfl
              refine ⟨(if st.delim = [CR] then [CR] else []) ++ zs'.reverse, ?_⟩
              rw [hl1, hlz', hzz]
              split <;> simp
        obtain ⟨t, ht⟩ := hends
        simp only [absorb, ht, stripEnd_crlf]
        exact ⟨trivial, trivial⟩
      · intro hdn
        simp only [absorb] at hdn ⊢
        obtain ⟨h1, h2⟩ := stripEnd_nodelim l1 hdn
        rw [h1, getLast?_append_ne_nil _ _ hl1ne]
        exact h2
      · exact stripEnd_delim l1
      · -- a line end held back as CR: the reader is in the after-CR state
        intro hdcr'
        simp only [absorb] at hdcr'
        have hl1cr : l1.getLast? = some CR := by
          have := stripEnd_split l1
          rw [hdcr'] at this
          rw [← this, getLast?_append_ne_nil _ _ (by simp)]
          rfl
        rw [hl1last, hl] at hl1cr
        exact hc.after r hr hl1cr
      · exact hok'
      · exact hrest

/-! ### the in-memory reader is an instance -/

theorem first_lf_le (a' b' x y : Bytes) (h1 : a' ++ LF :: b' = x ++ LF :: y) (ha : LF ∉ a') :
    a'.length ≤ x.length := by
  induction a' generalizing x with
  | nil => simp
  | cons c t ih =>
    cases x with
    | nil =>
      simp only [List.cons_append, List.nil_append, List.cons.injEq] at h1
      exact absurd (by rw [h1.1]; simp) ha
    | cons d u =>
      simp only [List.cons_append, List.cons.injEq] at h1
      have := ih u h1.2 (fun h => ha (by simp [h]))
      simp; omega

theorem lfTake_lf (k : Nat) (b : Bytes) (hk : 0 < k) : lfTake k (LF :: b) = [LF] := by
  cases k with
  | zero => omega
  | succ k => simp [lfTake]

/-- the in-memory reader honours the line contract -/
theorem lfContract : Contract lfReader (fun s => s) (fun _ => True) (fun _ => True) where
  conserve := by
    intro r cap _
    exact ⟨lfTake_prefix _ r, trivial⟩
  nonempty := by
    intro r cap _ hne hcap
    show lfTake (cap.getD r.length) r ≠ []
    apply lfTake_ne_nil _ _ _ hne
    rcases hcap with rfl | rfl
    · simp only [Option.getD_none]; exact List.length_pos_iff.mpr hne
    · simp only [Option.getD_some]; decide
  stop := by
    intro r a b _ hp _
    show (lfTake LINE_CAP r).length ≤ a.length + 2
    have hmem : LF ∈ r := by rw [hp]; simp
    obtain ⟨a', b', hab, ha'⟩ := split_first_lf r hmem
    have h1 := lfTake_stops LINE_CAP a' b' ha'
    rw [← hab] at h1
    have h2 : a'.length ≤ (a ++ [CR]).length := by
      apply first_lf_le a' b' (a ++ [CR]) b _ ha'
      rw [← hab, hp]; simp
    simp only [List.length_append, List.length_cons, List.length_nil] at h2
    omega
  split := by
    intro r b _ _ hp
    show lfTake LINE_CAP r = [LF]
    rw [hp]; exact lfTake_lf _ _ (by decide)
  after := by intros; trivial
  line_crlf := by
    intro r cap a b _ hp hcr hlf hcap
    show lfTake (cap.getD r.length) r = a ++ [CR, LF]
    have e : r = (a ++ [CR]) ++ LF :: b := by rw [hp]; simp
    have hno : LF ∉ a ++ [CR] := by
      intro h; rcases List.mem_append.1 h with h | h
      · exact hlf h
      · simp [CR, LF] at h
    have hk : (a ++ [CR]).length + 1 ≤ cap.getD r.length := by
      rcases hcap with rfl | ⟨rfl, h2⟩
      · simp only [Option.getD_none]; rw [e]; simp; omega
      · simp only [Option.getD_some, List.length_append, List.length_cons, List.length_nil]; omega
    generalize cap.getD r.length = k at hk ⊢
    rw [e, lfTake_line k (a ++ [CR]) b hno hk]
    simp
  line_end := by
    intro r a _ hp _ hlf hlen
    show lfTake LINE_CAP r = a
    rw [hp]; exact lfTake_all _ _ hlf hlen



/-! ## the block-caching reader (`CachedInput.readline`) honours the contract -/
open Poor.Reader

open Poor Poor.Reader

/-- after a line that ended in CR: nothing follows, or the next byte is the CR that was held back -/
def afterCRc (s : St) : Prop := s.pending = [] ∨ s.pending.head? = some CR

theorem cached_line (cap : Option Nat) (s : St) :
    cachedReader.line cap s = readline s (match cap with | some k => k | none => s.buf.length + s.todo) := rfl

theorem prefix_of_append_eq {l p x y : Bytes} (h : l ++ p = x ++ y) (hl : l.length ≤ x.length) :
    ∃ t, x = l ++ t ∧ p = t ++ y := by
  have h1 : l = (x ++ y).take l.length := by rw [← h]; simp
  rw [List.take_append_of_le_length hl] at h1
  refine ⟨x.drop l.length, ?_, ?_⟩
  · conv => lhs; rw [← List.take_append_drop l.length x]
    rw [← h1]
  · have h2 : l ++ p = l ++ (x.drop l.length ++ y) := by
      rw [h, ← List.append_assoc]
      congr 1
      conv => lhs; rw [← List.take_append_drop l.length x]
      rw [← h1]
    exact List.append_cancel_left h2

theorem readline_after (s : St) (h : (readline s LINE_CAP).1.getLast? = some CR) :
    afterCRc (readline s LINE_CAP).2 := by
  unfold readline at h ⊢
  generalize hsz : min LINE_CAP (s.buf.length + s.todo) = sz at h ⊢
  have hcut := readlineLoop_cut sz [] s
  have hav := readlineLoop_avail sz [] s
  unfold giveBack at h ⊢
  split
  · right
    simp [St.pending]
  · rename_i hcond
    rw [if_neg hcond] at h
    left
    have hne : (readlineLoop sz [] s).1 ≠ [] := by intro h0; rw [h0] at h; simp at h
    by_cases h1 : sz ≤ (readlineLoop sz [] s).1.length
    · by_cases h2 : (readlineLoop sz [] s).1.length > 1
      · -- then nothing is buffered and nothing is left of the budget
        have h3 : ¬ ((readlineLoop sz [] s).2.buf ≠ [] ∨ (readlineLoop sz [] s).2.todo > 0) := by
          intro h3; exact hcond ⟨h1, h2, h, h3⟩
        have hb : (readlineLoop sz [] s).2.buf = [] := by
          apply Classical.byContradiction; intro hb; exact h3 (Or.inl hb)
        have ht : (readlineLoop sz [] s).2.todo = 0 := by
          apply Classical.byContradiction; intro ht; exact h3 (Or.inr (by omega))
        simp [St.pending, hb, ht]
      · -- a one byte line: the whole budget was one byte
        have hlen : (readlineLoop sz [] s).1.length = 1 := by
          have := List.length_pos_iff.mpr hne; omega
        have hsz1 : sz ≤ 1 := by omega
        have hav1 : s.buf.length + s.todo ≤ 1 := by
          have hcap : 1 < LINE_CAP := by decide
          rw [← hsz] at hsz1; omega
        simp only [List.length_nil, Nat.add_zero, St.avail] at hav
        have hp := pending_le_avail (readlineLoop sz [] s).2
        simp only [St.avail] at hp
        exact List.length_eq_zero_iff.mp (by omega)
    · rcases hcut with ⟨pre, hp⟩ | hc | hc
      · rw [hp] at h; simp [CR, LF] at h
      · exact absurd hc h1
      · exact hc


theorem onlyFinal_readline (s : St) (size : Nat) : OnlyFinalCRLF (readline s size).1 :=
  giveBack_onlyFinal _ _ (readlineLoop_onlyFinal _ [] s noCRLF_nil)

theorem pending_pos_avail (s : St) (h : s.pending ≠ []) : 0 < s.buf.length + s.todo := by
  rcases pending_ne_nil s h with hb | ⟨_, ht, _⟩
  · have := List.length_pos_iff.mpr hb; omega
  · omega

/-- a complete line `a CRLF` without CR/LF inside is returned whole when the size allows -/
theorem readline_crlf (s : St) (size : Nat) (a b : Bytes) (hp : s.pending = a ++ CR :: LF :: b)
    (hcr : CR ∉ a) (hsz : a.length + 2 ≤ min size (s.buf.length + s.todo)) :
    (readline s size).1 = a ++ [CR, LF] := by
  have hcons := readline_conserve s size
  have honly := onlyFinal_readline s size
  have hcut := readline_cut s size
  rw [hp] at hcons
  -- the result is a prefix of `a CR LF b`
  by_cases hlong : a.length + 2 ≤ (readline s size).1.length
  · -- contains the pair: it must end there
    obtain ⟨t, ht1, ht2⟩ := prefix_of_append_eq (l := a ++ [CR, LF]) (p := b)
      (x := (readline s size).1) (y := (readline s size).2.pending) (by rw [hcons]; simp) (by simpa using hlong)
    have := honly a t (by rw [ht1]; simp)
    rw [this] at ht1; simpa using ht1
  · -- shorter: impossible
    exfalso
    have hl : (readline s size).1.length ≤ a.length + 1 := by omega
    obtain ⟨t, ht1, ht2⟩ := prefix_of_append_eq (l := (readline s size).1) (p := (readline s size).2.pending)
      (x := a ++ [CR]) (y := LF :: b) (by rw [hcons]; simp) (by simpa using hl)
    have hnocr : ∀ pre, (readline s size).1 ≠ pre ++ [CR, LF] := by
      intro pre he
      have : LF ∈ a ++ [CR] := by rw [ht1, he]; simp
      rcases List.mem_append.1 this with h | h
      · -- LF in a would make an LF in the result before the end; fine, but a is CR-free only:
        -- use the pair: CR LF inside a ++ [CR] means CR ∈ a
        have : CR ∈ a := by
          have e2 : a ++ [CR] = pre ++ [CR, LF] ++ t := by rw [ht1, he]
          -- the CR of the pair is not the last byte of a ++ [CR] (an LF follows it)
          have hlen : pre.length + 2 + t.length = a.length + 1 := by
            have := congrArg List.length e2; simp at this; omega
          have hpre : pre.length < a.length := by omega
          have : (a ++ [CR])[pre.length]? = some CR := by rw [e2]; simp
          rw [List.getElem?_append_left hpre] at this
          exact List.mem_of_getElem? this
        exact hcr this
      · simp [CR, LF] at h
    rcases hcut with ⟨pre, he⟩ | h | h | ⟨hh, h⟩
    · exact hnocr pre he
    · omega
    · rw [h] at ht2
      cases t <;> simp at ht2
    · -- the byte held back is a CR, but the next owed byte is the LF of the pair or lies in `a`
      have hlen : (readline s size).1.length = a.length + 1 := by omega
      have ht : t = [] := by
        have := congrArg List.length ht1
        simp at this
        exact List.length_eq_zero_iff.mp (by omega)
      rw [ht] at ht2
      simp only [List.nil_append] at ht2
      have : (readline s size).2.pending.head? = some CR := by
        unfold St.pending
        cases hb : (readline s size).2.buf with
        | nil => rw [hb] at hh; simp at hh
        | cons x xs => rw [hb] at hh; simpa using hh
      rw [ht2] at this
      simp [CR, LF] at this

/-- an unterminated last line without CR/LF is returned whole -/
theorem readline_last (s : St) (size : Nat) (a : Bytes) (hp : s.pending = a) (hcr : CR ∉ a)
    (hsz : a.length ≤ size) : (readline s size).1 = a := by
  have hcons := readline_conserve s size
  have hcut := readline_cut s size
  rw [hp] at hcons
  have hav := pending_le_avail s
  rw [hp] at hav
  simp only [St.avail] at hav
  have hpre : (readline s size).1.length ≤ a.length := by
    have := congrArg List.length hcons; simp at this; omega
  have hfull : a.length ≤ (readline s size).1.length → (readline s size).1 = a := by
    intro h
    have : (readline s size).2.pending = [] := by
      have := congrArg List.length hcons; simp at this
      exact List.length_eq_zero_iff.mp (by omega)
    rw [this] at hcons; simpa using hcons
  rcases hcut with ⟨pre, he⟩ | h | h | ⟨hh, h⟩
  · exfalso
    have : CR ∈ a := by rw [← hcons, he]; simp
    exact hcr this
  · exact hfull (by omega)
  · rw [h] at hcons; simpa using hcons
  · exfalso
    have : (readline s size).2.pending.head? = some CR := by
      unfold St.pending
      cases hb : (readline s size).2.buf with
      | nil => rw [hb] at hh; simp at hh
      | cons x xs => rw [hb] at hh; simpa using hh
    have hm : CR ∈ (readline s size).2.pending := List.mem_of_head? this
    exact hcr (by rw [← hcons]; simp [hm])

/-- **the block-caching reader honours the line contract** -/
theorem cachedContract : Contract cachedReader St.pending (fun _ => True) afterCRc where
  conserve := by
    intro r cap _
    rw [cached_line]
    exact ⟨readline_conserve r _, trivial⟩
  nonempty := by
    intro r cap _ hne hcap
    rw [cached_line]
    intro h0
    have hpos := pending_pos_avail r hne
    have := readline_complete r _ (by rcases hcap with rfl | rfl <;> simp <;> first | omega | decide) h0
    exact hne this
  stop := by
    intro r a b _ hp _
    rw [cached_line]
    simp only
    have hcons := readline_conserve r LINE_CAP
    have honly := onlyFinal_readline r LINE_CAP
    rw [hp] at hcons
    apply Classical.byContradiction
    intro hgt
    have hl : (a ++ [CR, LF]).length ≤ (readline r LINE_CAP).1.length := by simp; omega
    obtain ⟨t, ht1, _⟩ := prefix_of_append_eq (l := a ++ [CR, LF]) (p := b)
      (x := (readline r LINE_CAP).1) (y := (readline r LINE_CAP).2.pending) (by rw [hcons]; simp) hl
    have := honly a t (by rw [ht1]; simp)
    rw [this] at ht1
    rw [ht1] at hgt; simp at hgt
  split := by
    intro r b _ hacr hp
    exfalso
    rcases hacr with h | h
    · rw [h] at hp; cases hp
    · rw [hp] at h; simp [CR, LF] at h
  after := by
    intro r _ h
    rw [cached_line] at h ⊢
    exact readline_after r h
  line_crlf := by
    intro r cap a b _ hp hcr _ hcap
    rw [cached_line]
    apply readline_crlf r _ a b hp hcr
    have hav := pending_le_avail r
    rw [hp] at hav
    simp only [St.avail, List.length_append, List.length_cons] at hav
    rcases hcap with rfl | ⟨rfl, h2⟩
    · simp only; omega
    · simp only; omega
  line_end := by
    intro r a _ hp hcr _ hlen
    rw [cached_line]
    exact readline_last r _ a hp hcr hlen



/-! ## whole bodies over any contract reader -/
open Poor.Headers (utf8enc utf8dec)

/-- a complete CR/LF-free line is delivered whole by an uncapped read, and the reader moves past it -/
theorem Contract.full_line (hc : Contract rd pend Ok afterCR) (r : R) (a b : Bytes) (hr : Ok r)
    (hp : pend r = a ++ CR :: LF :: b) (hcr : CR ∉ a) (hlf : LF ∉ a) :
    (rd.line none r).1 = a ++ [CR, LF] ∧ pend (rd.line none r).2 = b ∧ Ok (rd.line none r).2 := by
  have h1 := hc.line_crlf r none a b hr hp hcr hlf (Or.inl rfl)
  obtain ⟨h2, h3⟩ := hc.conserve r none hr
  refine ⟨h1, ?_, h3⟩
  rw [h1, hp] at h2
  have : a ++ [CR, LF] ++ pend (rd.line none r).2 = a ++ [CR, LF] ++ b := by simpa using h2
  exact List.append_cancel_left this

theorem headerLines_blockG (hc : Contract rd pend Ok afterCR) (ts : List Bytes) (rest : Bytes) (fuel : Nat)
    (h : ∀ t ∈ ts, CR ∉ t ∧ LF ∉ t ∧ ∃ b ∈ t, isWs b = false) (hfuel : ts.length < fuel) (r : R) (hr : Ok r)
    (hp : pend r = ts.flatMap (· ++ [CR, LF]) ++ ([CR, LF] ++ rest)) :
    ∃ r', headerLines rd fuel r = (ts.map (· ++ [CR, LF]) ++ [[CR, LF]], r') ∧ pend r' = rest ∧ Ok r' := by
  induction ts generalizing fuel r with
  | nil =>
    obtain ⟨f, rfl⟩ : ∃ f, fuel = f + 1 := ⟨fuel - 1, by simp at hfuel; omega⟩
    obtain ⟨h1, h2, h3⟩ := hc.full_line r [] rest hr (by simpa using hp) (by simp) (by simp)
    obtain ⟨r', hr'⟩ : ∃ r', r' = (rd.line none r).2 := ⟨_, rfl⟩
    rw [← hr'] at h2 h3
    have hl : rd.line none r = ([CR, LF], r') := by rw [hr']; exact Prod.ext h1 rfl
    refine ⟨r', ?_, h2, h3⟩
    simp only [headerLines, hl]
    simp [strip_crlf]
  | cons t ts ih =>
    obtain ⟨f, rfl⟩ : ∃ f, fuel = f + 1 := ⟨fuel - 1, by simp at hfuel; omega⟩
    obtain ⟨htcr, htlf, htws⟩ := h t (by simp)
    obtain ⟨h1, h2, h3⟩ := hc.full_line r t (ts.flatMap (· ++ [CR, LF]) ++ ([CR, LF] ++ rest)) hr
      (by rw [hp]; simp) htcr htlf
    obtain ⟨r', hr'⟩ : ∃ r', r' = (rd.line none r).2 := ⟨_, rfl⟩
    rw [← hr'] at h2 h3
    have hl : rd.line none r = (t ++ [CR, LF], r') := by rw [hr']; exact Prod.ext h1 rfl
    obtain ⟨r'', hh, hp'', hr''⟩ := ih f (fun x hx => h x (by simp [hx])) (by simp at hfuel; omega) _ h3 h2
    refine ⟨r'', ?_, hp'', hr''⟩
    obtain ⟨y, ys, hys⟩ : ∃ y ys, t ++ [CR, LF] = y :: ys := by
      cases hc' : t ++ [CR, LF] with
      | nil => simp at hc'
      | cons y ys => exact ⟨y, ys, rfl⟩
    have hstrip : (strip (y :: ys)).isEmpty = false := by
      rw [← hys]
      have : strip (t ++ [CR, LF]) ≠ [] := strip_ne_nil _ (by
        obtain ⟨b, hb, hw⟩ := htws
        exact ⟨b, by simp [hb], hw⟩)
      cases hs : strip (t ++ [CR, LF]) with
      | nil => exact absurd hs this
      | cons _ _ => rfl
    rw [hys] at hl
    simp only [headerLines, hl, hstrip, Bool.false_eq_true, if_false, hh]
    simp [← hys]


theorem header_blockG (hc : Contract rd pend Ok afterCR) (ib : Bytes) (p : EPart) (hp : PartOK ib p)
    (rest : Bytes) (fuel : Nat) (hfuel : 2 < fuel) (r : R) (hr : Ok r)
    (hpend : pend r = headerBytes p ++ ([CR, LF] ++ rest)) :
    ∃ lines r', headerLines rd fuel r = (lines, r') ∧ pend r' = rest ∧ Ok r' ∧
      lines.isEmpty = false ∧
      lines.mapM parseHeaderLine = some ((hdrPairs p).map some ++ [none]) := by
  obtain ⟨r', hblock, hp', hr'⟩ := headerLines_blockG hc ((hdrTexts p).map utf8enc) rest fuel (by
    intro t ht
    obtain ⟨x, hx, rfl⟩ := List.mem_map.1 ht
    refine ⟨(hp.bytes x hx).1, (hp.bytes x hx).2, ?_⟩
    have hC : ∃ r, x = 'C' :: r := by
      unfold hdrTexts at hx
      rcases List.mem_cons.1 hx with rfl | hx
      · exact ⟨_, rfl⟩
      · cases hct : p.ctype with
        | none => simp [hct] at hx
        | some t => simp [hct] at hx; subst hx; exact ⟨_, rfl⟩
    obtain ⟨r, hr⟩ := hC
    exact first_byte_nonws x 'C' r hr (by decide) (by decide)) (by
    unfold hdrTexts; cases p.ctype <;> simp <;> omega) r hr hpend
  refine ⟨_, r', hblock, hp', hr', by simp, ?_⟩
  unfold hdrTexts hdrPairs
  cases hct : p.ctype with
  | none =>
    simp only [List.map_cons, List.map_nil, List.cons_append, List.nil_append, List.mapM_cons, List.mapM_nil]
    rw [parse_disp_line p ib hp, parseHeaderLine_blank]
    rfl
  | some t =>
    simp only [List.map_cons, List.map_nil, List.cons_append, List.nil_append, List.mapM_cons, List.mapM_nil]
    rw [parse_disp_line p ib hp, parse_ctype_line p ib hp t hct, parseHeaderLine_blank]
    rfl

/-- one turn of the `read_multi` loop on an encoded part, over any contract reader -/
theorem readParts_stepG (hc : Contract rd pend Ok afterCR) (ib : Bytes) (hb : BOk (DASH :: DASH :: ib))
    (p : EPart) (hp : PartOK ib p)
    (mark eol tail : Bytes) (hmark : mark = [] ∨ mark = [DASH, DASH])
    (heol : eol = [CR, LF] ∨ (eol = [] ∧ tail = [])) (fuel : Nat) (hfuel : p.content.length + 2 < fuel)
    (r : R) (hr : Ok r)
    (hpend : pend r = headerBytes p ++ ([CR, LF] ++ (p.content ++ [CR, LF] ++ (DASH :: DASH :: ib ++ mark ++ eol ++ tail)))) :
    ∃ r', pend r' = tail ∧ Ok r' ∧
    readParts rd ib (fuel + 1) r
      = (if mark = [] then
          (match readParts rd ib fuel r' with
           | .ok ps => .ok (expected p :: ps)
           | e => e)
         else .ok [expected p]) := by
  obtain ⟨lines, r1, hl1, hp1, hr1, hl2, hl3⟩ := header_blockG hc ib p hp
    (p.content ++ [CR, LF] ++ (DASH :: DASH :: ib ++ mark ++ eol ++ tail)) fuel (by omega) r hr hpend
  obtain ⟨r2, hbody, hp2, hr2⟩ := extract_auxG hc (DASH :: DASH :: ib) mark eol tail p.content hb hp.content hmark heol
    (p.content.length + 2) ⟨[], [], true⟩ [] (p.content ++ [CR, LF]) fuel r1 (by simp) hfuel (by simp) (by simp)
    (by intro h; simp at h) (by simp) (Or.inr (Or.inr (Or.inr rfl))) (by intro h; cases h) hr1 (by rw [hp1])
  refine ⟨r2, hp2, hr2, ?_⟩
  have hnb : DASH :: DASH :: ib ++ [DASH, DASH] = (DASH :: DASH :: ib) ++ [DASH, DASH] := rfl
  have hmp : ¬ (p.ctype.getD "text/plain".toList).take 10 = "multipart/".toList := by
    cases hc : p.ctype with
    | none => decide
    | some t => simpa using (hp.ctype t hc).2.2.2
  have hname : dictGet (dispParams p) "name" = some p.name := by
    unfold dictGet dispParams; simp [List.find?]
  have hfile : dictGet (dispParams p) "filename" = p.filename := by
    unfold dictGet dispParams
    have : ("name".toList == "filename".toList) = false := by decide
    cases p.filename <;> simp [List.find?, this]
  simp only [readParts, hl1, hl2, hl3, Bool.false_eq_true, if_false, filterMap_pairs, partParams_pairs,
    partCtype_pairs ib p hp, hmp, hname, hfile, hnb, hbody]
  rcases hmark with rfl | rfl
  · simp only [if_true]
    cases readParts rd ib fuel r2 <;> rfl
  · have : ([DASH, DASH] : Bytes) ≠ [] := by decide
    simp only [this, if_false]
    rfl

theorem readParts_bodyG (hc : Contract rd pend Ok afterCR) (ib final : Bytes) (hb : BOk (DASH :: DASH :: ib))
    (hfinal : final = [CR, LF] ∨ final = []) :
    ∀ (ps : List EPart), ps ≠ [] → (∀ p ∈ ps, PartOK ib p) →
      ∀ fuel, (∀ p ∈ ps, p.content.length + 2 + ps.length < fuel) →
      ∀ r, Ok r → pend r = encBody ib final ps →
      readParts rd ib fuel r = .ok (ps.map expected) := by
  intro ps
  induction ps with
  | nil => intro h; exact absurd rfl h
  | cons p rest ih =>
    intro _ hok fuel hfuel r hr hpend
    obtain ⟨f, rfl⟩ : ∃ f, fuel = f + 1 := ⟨fuel - 1, by have := hfuel p (by simp); omega⟩
    cases rest with
    | nil =>
      have hf : p.content.length + 2 < f := by have := hfuel p (by simp); simp at this; omega
      have heol : final = [CR, LF] ∨ (final = [] ∧ ([] : Bytes) = []) := by
        rcases hfinal with h | h
        · exact Or.inl h
        · exact Or.inr ⟨h, rfl⟩
      obtain ⟨r', _, _, this⟩ := readParts_stepG hc ib hb p (hok p (by simp)) [DASH, DASH] final [] (Or.inr rfl) heol f hf
        r hr (by rw [hpend]; simp only [encBody])
      rw [this]
      have : ([DASH, DASH] : Bytes) ≠ [] := by decide
      simp [this]
    | cons q qs =>
      have hf : p.content.length + 2 < f := by have := hfuel p (by simp); simp at this; omega
      obtain ⟨r', hp', hr', this⟩ := readParts_stepG hc ib hb p (hok p (by simp)) [] [CR, LF] (encBody ib final (q :: qs)) (Or.inl rfl)
        (Or.inl rfl) f hf r hr (by rw [hpend]; simp only [encBody])
      rw [this]
      have hrec := ih (by simp) (fun x hx => hok x (by simp [hx])) f (by
        intro x hx
        have := hfuel x (by simp [hx])
        simp only [List.length_cons] at this ⊢
        omega) r' hr' hp'
      simp only [if_true, hrec, List.map_cons]

/-- **C08 over any reader that honours the line contract, whole bodies.** -/
theorem parse_encodeG (hc : Contract rd pend Ok afterCR) (ib final : Bytes) (hb : BOk (DASH :: DASH :: ib))
    (hvalid : validBoundary ib = true)
    (hfinal : final = [CR, LF] ∨ final = []) (ps : List EPart) (hne : ps ≠ []) (hok : ∀ p ∈ ps, PartOK ib p)
    (fuel : Nat) (hfuel : ∀ p ∈ ps, p.content.length + 3 + ps.length < fuel)
    (r : R) (hr : Ok r) (hpend : pend r = encode ib final ps) :
    parseMultipart rd ib fuel r = .ok (ps.map expected) := by
  unfold parseMultipart
  rw [hvalid]
  simp only [Bool.not_true, Bool.false_eq_true, if_false]
  obtain ⟨f, rfl⟩ : ∃ f, fuel = f + 1 := by
    obtain ⟨p, hp⟩ := List.exists_mem_of_ne_nil ps hne
    exact ⟨fuel - 1, by have := hfuel p hp; omega⟩
  -- the first delimiter line
  obtain ⟨h1, h2, h3⟩ := hc.full_line r (DASH :: DASH :: ib) (encBody ib final ps) hr
    (by rw [hpend]; simp [encode]) hb.nocr hb.nolf
  obtain ⟨r', hr'⟩ : ∃ r', r' = (rd.line none r).2 := ⟨_, rfl⟩
  rw [← hr'] at h2 h3
  have hline : rd.line none r = (DASH :: DASH :: ib ++ [CR, LF], r') := by rw [hr']; exact Prod.ext h1 rfl
  have hstrip : strip (DASH :: DASH :: ib ++ [CR, LF]) = DASH :: DASH :: ib := by
    unfold strip
    have hd : isWs DASH = false := by decide
    simp only [List.cons_append, List.dropWhile_cons, hd, Bool.false_eq_true, if_false]
    obtain ⟨q, z, hq, hz⟩ := hb.last
    have := rstrip_crlf (DASH :: DASH :: ib) q z hq hz
    simpa using this
  have hskip : skipToBoundary rd ib (f + 1) r = r' := by
    simp only [skipToBoundary, hline]
    have hstrip' : strip (DASH :: DASH :: (ib ++ [CR, LF])) = DASH :: DASH :: ib := by simpa using hstrip
    simp [hstrip']
  rw [hskip]
  exact readParts_bodyG hc ib final hb hfinal ps hne hok (f + 1) (by
    intro p hp; have := hfuel p hp; omega) r' h3 h2

/-- the block-caching reader, whatever its block size, buffer and source split -/
theorem parse_encode_cached (ib final : Bytes) (hb : BOk (DASH :: DASH :: ib))
    (hvalid : validBoundary ib = true)
    (hfinal : final = [CR, LF] ∨ final = []) (ps : List EPart) (hne : ps ≠ []) (hok : ∀ p ∈ ps, PartOK ib p)
    (fuel : Nat) (hfuel : ∀ p ∈ ps, p.content.length + 3 + ps.length < fuel)
    (s : Reader.St) (hpend : s.pending = encode ib final ps) :
    parseMultipart cachedReader ib fuel s = .ok (ps.map expected) :=
  parse_encodeG cachedContract ib final hb hvalid hfinal ps hne hok fuel hfuel s trivial hpend


/-- a preamble: lines (without CR/LF inside, ended by CRLF) none of which is the delimiter line -/
def preambleText (pre : List Bytes) : Bytes := pre.flatMap (· ++ [CR, LF])

/-- `_skip_to_boundary` reads over a preamble (RFC 2046 5.1.1: "to be ignored"), empty lines included -/
theorem skip_preambleG (hc : Contract rd pend Ok afterCR) (ib : Bytes) (pre : List Bytes)
    (hpre : ∀ l ∈ pre, CR ∉ l ∧ LF ∉ l ∧ strip (l ++ [CR, LF]) ≠ DASH :: DASH :: ib) (X : Bytes) (k : Nat) :
    ∀ r, Ok r → pend r = preambleText pre ++ X →
      ∃ r', skipToBoundary rd ib (pre.length + k) r = skipToBoundary rd ib k r' ∧ Ok r' ∧ pend r' = X := by
  induction pre with
  | nil => intro r hr hp; exact ⟨r, by simp, hr, by simpa [preambleText] using hp⟩
  | cons l pre ih =>
    intro r hr hp
    obtain ⟨hcr, hlf, hne⟩ := hpre l List.mem_cons_self
    have hp' : pend r = l ++ CR :: LF :: (preambleText pre ++ X) := by
      rw [hp]; simp [preambleText]
    obtain ⟨h1, h2, h3⟩ := hc.full_line r l _ hr hp' hcr hlf
    obtain ⟨r1, hr1⟩ : ∃ r1, r1 = (rd.line none r).2 := ⟨_, rfl⟩
    rw [← hr1] at h2 h3
    have hline : rd.line none r = (l ++ [CR, LF], r1) := by rw [hr1]; exact Prod.ext h1 rfl
    obtain ⟨r', e, hr', hp''⟩ := ih (fun x hx => hpre x (List.mem_cons_of_mem _ hx)) r1 h3 h2
    refine ⟨r', ?_, hr', hp''⟩
    rw [← e]
    have : (l :: pre).length + k = (pre.length + k) + 1 := by simp only [List.length_cons]; omega
    rw [this]
    simp only [skipToBoundary, hline]
    cases l with
    | nil => simp only [List.nil_append] at hne ⊢; simp [hne]
    | cons a l => simp only [List.cons_append] at hne ⊢; simp [hne]

/-- **C08 over any reader, bodies with a preamble.** -/
theorem parse_encode_preambleG (hc : Contract rd pend Ok afterCR) (ib final : Bytes) (hb : BOk (DASH :: DASH :: ib))
    (hvalid : validBoundary ib = true)
    (hfinal : final = [CR, LF] ∨ final = []) (ps : List EPart) (hne : ps ≠ []) (hok : ∀ p ∈ ps, PartOK ib p)
    (pre : List Bytes) (hpre : ∀ l ∈ pre, CR ∉ l ∧ LF ∉ l ∧ strip (l ++ [CR, LF]) ≠ DASH :: DASH :: ib)
    (fuel : Nat) (hfuel : ∀ p ∈ ps, p.content.length + 3 + ps.length + pre.length < fuel)
    (r : R) (hr : Ok r) (hpend : pend r = preambleText pre ++ encode ib final ps) :
    parseMultipart rd ib fuel r = .ok (ps.map expected) := by
  unfold parseMultipart
  rw [hvalid]
  simp only [Bool.not_true, Bool.false_eq_true, if_false]
  obtain ⟨p0, hp0⟩ := List.exists_mem_of_ne_nil ps hne
  have hbig := hfuel p0 hp0
  obtain ⟨f, hf⟩ : ∃ f, fuel = pre.length + (f + 1) := ⟨fuel - pre.length - 1, by omega⟩
  obtain ⟨r0, e0, hr0, hp0'⟩ := skip_preambleG hc ib pre hpre (encode ib final ps) (f + 1) r hr hpend
  -- the first delimiter line
  obtain ⟨h1, h2, h3⟩ := hc.full_line r0 (DASH :: DASH :: ib) (encBody ib final ps) hr0
    (by rw [hp0']; simp [encode]) hb.nocr hb.nolf
  obtain ⟨r', hr'⟩ : ∃ r', r' = (rd.line none r0).2 := ⟨_, rfl⟩
  rw [← hr'] at h2 h3
  have hline : rd.line none r0 = (DASH :: DASH :: ib ++ [CR, LF], r') := by rw [hr']; exact Prod.ext h1 rfl
  have hstrip : strip (DASH :: DASH :: ib ++ [CR, LF]) = DASH :: DASH :: ib := by
    unfold strip
    have hd : isWs DASH = false := by decide
    simp only [List.cons_append, List.dropWhile_cons, hd, Bool.false_eq_true, if_false]
    obtain ⟨q, z, hq, hz⟩ := hb.last
    have := rstrip_crlf (DASH :: DASH :: ib) q z hq hz
    simpa using this
  have hskip : skipToBoundary rd ib fuel r = r' := by
    rw [hf, e0]
    simp only [skipToBoundary, hline]
    have hstrip' : strip (DASH :: DASH :: (ib ++ [CR, LF])) = DASH :: DASH :: ib := by simpa using hstrip
    simp [hstrip']
  rw [hskip]
  exact readParts_bodyG hc ib final hb hfinal ps hne hok fuel (by
    intro p hp; have := hfuel p hp; omega) r' h3 h2


end Poor.Multipart
