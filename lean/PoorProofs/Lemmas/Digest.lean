import PoorModel.Digest
import PoorProofs.Lemmas.HeaderValue
import PoorProofs.Props.C14
/-
Lemmas for property C11: the Authorization tokenizer on a header as an RFC 7616 client writes it.
-/
namespace Poor.Digest
open Poor

/-- `key="value"` as a client writes it -/
def renderField (k v : Str) : Str := k ++ '=' :: '"' :: v ++ ['"']

def renderFields : List (Str × Str) → Str
  | [] => []
  | [kv] => renderField kv.1 kv.2
  | kv :: kv' :: rest => renderField kv.1 kv.2 ++ ',' :: ' ' :: renderFields (kv' :: rest)

/-- `Digest k1="v1", k2="v2", ...` -/
def renderAuth (fs : List (Str × Str)) : Str := "Digest ".toList ++ renderFields fs

def FieldOK (kv : Str × Str) : Prop :=
  kv.1 ≠ [] ∧ (∀ c ∈ kv.1, isWord c = true) ∧ kv.2 ≠ [] ∧ '"' ∉ kv.2

theorem takeWhile_append_stop {p : Char → Bool} (a : Str) (x : Char) (r : Str) (ha : ∀ c ∈ a, p c = true)
    (hx : p x = false) : (a ++ x :: r).takeWhile p = a ∧ (a ++ x :: r).dropWhile p = x :: r := by
  induction a with
  | nil => simp [List.takeWhile, List.dropWhile, hx]
  | cons c t ih =>
    have := ih (fun y hy => ha y (by simp [hy]))
    simp [List.takeWhile, List.dropWhile, ha c (by simp), this]

/-- the tokenizer on one rendered field followed by anything -/
theorem matchAt_field (k v rest : Str) (h : FieldOK (k, v)) :
    matchAt (renderField k v ++ rest) = some (k, '"' :: v ++ ['"'], (renderField k v).length) := by
  obtain ⟨hk, hw, hv, hq⟩ := h
  simp only at hk hw hv hq
  unfold matchAt
  have e : renderField k v ++ rest = k ++ '=' :: ('"' :: v ++ '"' :: rest) := by simp [renderField]
  rw [e]
  obtain ⟨h1, h2⟩ := takeWhile_append_stop (p := isWord) k '=' ('"' :: v ++ '"' :: rest) hw (by decide)
  simp only [h1, h2]
  have hke : k.isEmpty = false := by cases k <;> simp_all
  simp only [hke, Bool.false_eq_true, if_false, List.length_nil, List.drop_zero]
  obtain ⟨h3, h4⟩ := takeWhile_append_stop (p := (· != '"')) v '"' rest
    (fun c hc => by simpa using (fun e : c = '"' => hq (e ▸ hc))) (by decide)
  simp only [List.cons_append, h3, h4]
  have hve : v.isEmpty = false := by cases v <;> simp_all
  simp [hve, renderField]
  rw [h4, h3]
  have hvn : ¬ v = [] := hv
  simp only [hvn, if_false]
  congr 3
  omega


theorem scanAuthF_none (f : Nat) (c : Char) (cs : Str) (h : matchAt (c :: cs) = none) :
    scanAuthF (f + 1) (c :: cs) = scanAuthF f cs := by
  rw [scanAuthF, h]
  simp

theorem scanAuthF_skip (f : Nat) (c : Char) (cs : Str) (hc : isWord c = false) :
    scanAuthF (f + 1) (c :: cs) = scanAuthF f cs := by
  apply scanAuthF_none
  unfold matchAt
  simp [List.takeWhile, hc]

/-- a word that is not followed by `=` (the scheme) yields no field -/
theorem scanAuthF_word (w rest : Str) (hw : ∀ c ∈ w, isWord c = true) (f : Nat) :
    scanAuthF (f + w.length + 1) (w ++ ' ' :: rest) = scanAuthF f rest := by
  induction w generalizing f with
  | nil => exact scanAuthF_skip f ' ' rest (by decide)
  | cons c t ih =>
    have hm : matchAt (c :: (t ++ ' ' :: rest)) = none := by
      unfold matchAt
      obtain ⟨h1, h2⟩ := takeWhile_append_stop (p := isWord) (c :: t) ' ' rest hw (by decide)
      simp only [List.cons_append] at h1 h2
      simp [h1, h2]
    have e : f + (c :: t).length + 1 = (f + t.length + 1) + 1 := by simp; omega
    rw [List.cons_append, e, scanAuthF_none _ _ _ hm]
    exact ih (fun x hx => hw x (by simp [hx])) f

theorem scanAuthF_field (k v rest : Str) (h : FieldOK (k, v)) (f : Nat) :
    scanAuthF (f + 1) (renderField k v ++ rest) = (k, '"' :: v ++ ['"']) :: scanAuthF f rest := by
  have hm := matchAt_field k v rest h
  have hne : (renderField k v ++ rest).isEmpty = false := by simp [renderField]
  rw [scanAuthF, hne, hm]
  simp

/-- more fuel than characters changes nothing -/
theorem scanAuthF_nil (f : Nat) : scanAuthF f [] = [] := by
  cases f <;> simp [scanAuthF]

/-- **the tokenizer on a header as a client writes it** (fuel: three per field and seven for the
    scheme are enough; the length of the header, which `scanAuth` uses, is more) -/
theorem scanAuthF_render (fs : List (Str × Str)) (h : ∀ kv ∈ fs, FieldOK kv) (f : Nat)
    (hf : 3 * fs.length + 7 ≤ f) :
    scanAuthF f (renderAuth fs) = fs.map fun kv => (kv.1, '"' :: kv.2 ++ ['"']) := by
  unfold renderAuth
  have e : "Digest ".toList = "Digest".toList ++ ' ' :: [] := by decide
  have h6 : "Digest".toList.length = 6 := by decide
  obtain ⟨g, rfl⟩ : ∃ g, f = g + "Digest".toList.length + 1 := ⟨f - 7, by omega⟩
  rw [e, List.append_assoc, List.cons_append, List.nil_append, scanAuthF_word _ _ (by decide)]
  have hg : 3 * fs.length ≤ g := by omega
  clear hf e
  induction fs generalizing g with
  | nil => simp [renderFields, scanAuthF_nil]
  | cons kv t ih =>
    obtain ⟨g1, rfl⟩ : ∃ g1, g = g1 + 1 := ⟨g - 1, by simp at hg; omega⟩
    cases t with
    | nil =>
      have := scanAuthF_field kv.1 kv.2 [] (h kv (by simp)) g1
      simp only [List.append_nil] at this
      simp only [renderFields, this, List.map_cons, List.map_nil, scanAuthF_nil]
    | cons kv' t' =>
      have h1 := scanAuthF_field kv.1 kv.2 (',' :: ' ' :: renderFields (kv' :: t')) (h kv (by simp)) g1
      simp only [renderFields]
      obtain ⟨g2, rfl⟩ : ∃ g2, g1 = g2 + 1 + 1 := ⟨g1 - 2, by simp at hg; omega⟩
      rw [h1, scanAuthF_skip _ ',' _ (by decide), scanAuthF_skip _ ' ' _ (by decide),
        ih (fun x hx => h x (by simp [hx])) g2 (by simp at hg ⊢; omega)]
      simp


theorem renderFields_length (fs : List (Str × Str)) (h : ∀ kv ∈ fs, FieldOK kv) :
    3 * fs.length ≤ (renderFields fs).length := by
  induction fs with
  | nil => simp
  | cons kv t ih =>
    have hk : 1 ≤ kv.1.length := List.length_pos_iff.mpr (h kv (by simp)).1
    cases t with
    | nil => simp [renderFields, renderField]; omega
    | cons kv' t' =>
      have := ih (fun x hx => h x (by simp [hx]))
      simp only [renderFields, renderField, List.length_append, List.length_cons, List.length_nil] at this ⊢
      omega

theorem getLast?_append_ne {α : Type} (a b : List α) (hb : b ≠ []) : (a ++ b).getLast? = b.getLast? := by
  rw [List.getLast?_append]
  cases h : b.getLast? with
  | none => exact absurd (List.getLast?_eq_none_iff.1 h) hb
  | some x => rfl

theorem renderField_last (k v : Str) : (renderField k v).getLast? = some '"' := by
  unfold renderField
  rw [show k ++ '=' :: '"' :: v ++ ['"'] = (k ++ '=' :: '"' :: v) ++ ['"'] by simp,
    getLast?_append_ne _ _ (by simp)]
  rfl

theorem renderFields_ne_nil (fs : List (Str × Str)) (hne : fs ≠ []) : renderFields fs ≠ [] := by
  cases fs with
  | nil => exact absurd rfl hne
  | cons kv t => cases t <;> simp [renderFields, renderField]

theorem renderFields_last (fs : List (Str × Str)) (hne : fs ≠ []) : (renderFields fs).getLast? = some '"' := by
  induction fs with
  | nil => exact absurd rfl hne
  | cons kv t ih =>
    cases t with
    | nil => exact renderField_last _ _
    | cons kv' t' =>
      have := ih (by simp)
      simp only [renderFields]
      rw [show renderField kv.1 kv.2 ++ ',' :: ' ' :: renderFields (kv' :: t')
            = (renderField kv.1 kv.2 ++ [',', ' ']) ++ renderFields (kv' :: t') by simp,
        getLast?_append_ne _ _ (renderFields_ne_nil _ (by simp))]
      exact this

theorem foldl_dictSet_map (g : Str → Str) (l : List (Str × Str)) (acc : List (Str × Str))
    (hnd : ((acc ++ l).map (·.1)).Nodup) :
    l.foldl (fun d kv => HeaderValue.dictSet d kv.1 (g kv.2)) acc = acc ++ l.map (fun kv => (kv.1, g kv.2)) := by
  induction l generalizing acc with
  | nil => simp
  | cons kv t ih =>
    have hnot : acc.any (fun e => e.1 == kv.1) = false := by
      rw [List.any_eq_false]
      intro e he heq
      have heq' : e.1 = kv.1 := by simpa using heq
      simp only [List.map_append, List.map_cons] at hnd
      have := (List.nodup_append.1 hnd).2.2 e.1 (List.mem_map.2 ⟨e, he, rfl⟩) kv.1 (by simp)
      exact this heq'
    have hds : HeaderValue.dictSet acc kv.1 (g kv.2) = acc ++ [(kv.1, g kv.2)] := by
      simp [HeaderValue.dictSet, hnot]
    rw [List.foldl_cons, hds, ih (acc ++ [(kv.1, g kv.2)]) (by simpa [List.append_assoc] using hnd)]
    simp [List.append_assoc]

theorem stripQuotes_quoted (v : Str) (hv : v ≠ []) (hq : '"' ∉ v) : stripQuotes ('"' :: v ++ ['"']) = v := by
  unfold stripQuotes
  obtain ⟨c, r, rfl⟩ : ∃ c r, v = c :: r := by
    cases v with
    | nil => exact absurd rfl hv
    | cons c r => exact ⟨c, r, rfl⟩
  have hc : (c == '"') = false := by
    have : c ≠ '"' := fun e => hq (by simp [e])
    simpa using this
  have h1 : ('"' :: (c :: r) ++ ['"']).dropWhile (· == '"') = (c :: r) ++ ['"'] := by
    simp [List.dropWhile, hc]
  rw [h1]
  have h2 : ((c :: r) ++ ['"']).reverse = '"' :: (c :: r).reverse := by simp
  rw [h2]
  have hl : ∃ d ds, (c :: r).reverse = d :: ds ∧ (d == '"') = false := by
    cases hr : (c :: r).reverse with
    | nil => simp at hr
    | cons d ds =>
      refine ⟨d, ds, rfl, ?_⟩
      have hm : d ∈ (c :: r).reverse := by rw [hr]; simp
      have hm' : d ∈ c :: r := by
        have := List.mem_reverse.1 hm
        exact this
      have : d ≠ '"' := fun e => hq (by rw [← e]; exact hm')
      simpa using this
  obtain ⟨d, ds, hds, hd⟩ := hl
  rw [hds]
  simp only [List.dropWhile_cons, beq_self_eq_true, if_true, hd, Bool.false_eq_true, if_false]
  rw [← hds, List.reverse_reverse]


theorem renderAuth_first (fs : List (Str × Str)) : ∃ r, renderAuth fs = 'D' :: r := ⟨_, rfl⟩

theorem renderAuth_split (fs : List (Str × Str)) :
    renderAuth fs = ['D', 'i', 'g', 'e', 's', 't'] ++ ' ' :: renderFields fs := rfl

theorem renderAuth_length (fs : List (Str × Str)) : (renderAuth fs).length = 7 + (renderFields fs).length := by
  rw [renderAuth_split]; simp; omega

theorem capitalize_digest : capitalize ['D', 'i', 'g', 'e', 's', 't'] = "Digest".toList := by decide

/-- **the parsed credentials of a header as a client writes it**: every field with its value
    transcoded back from the wire form, and the scheme -/
theorem authDict_render (fs : List (Str × Str)) (hne : fs ≠ []) (h : ∀ kv ∈ fs, FieldOK kv)
    (hnd : (fs.map (·.1)).Nodup)
    (hkeys : ∀ kv ∈ fs, kv.1 ≠ "type".toList ∧ kv.1 ≠ "username*".toList) :
    authDict (renderAuth fs) =
      some (fs.map (fun kv => (kv.1, Headers.utf8 kv.2)) ++ [("type".toList, "Digest".toList)]) := by
  unfold authDict
  obtain ⟨r, hr⟩ := renderAuth_first fs
  have hlast : (renderAuth fs).getLast? = some '"' := by
    unfold renderAuth
    rw [getLast?_append_ne _ _ (renderFields_ne_nil fs hne)]
    exact renderFields_last fs hne
  have hstrip : HeaderValue.strip (renderAuth fs) = renderAuth fs :=
    HeaderValue.strip_id _ 'D' r hr (by decide) '"' hlast (by decide)
  simp only [hstrip]
  have hscan : scanAuth (renderAuth fs) = fs.map fun kv => (kv.1, '"' :: kv.2 ++ ['"']) := by
    unfold scanAuth
    apply scanAuthF_render fs h
    have := renderFields_length fs h
    rw [renderAuth_length]
    omega
  rw [hscan, List.foldl_map]
  have hfold := foldl_dictSet_map (fun v => Headers.utf8 (stripQuotes ('"' :: v ++ ['"']))) fs [] (by simpa using hnd)
  simp only [List.nil_append] at hfold
  rw [hfold]
  have hmap : fs.map (fun kv => (kv.1, Headers.utf8 (stripQuotes ('"' :: kv.2 ++ ['"'])))) =
      fs.map (fun kv => (kv.1, Headers.utf8 kv.2)) := by
    apply List.map_congr_left
    intro kv hkv
    rw [stripQuotes_quoted kv.2 (h kv hkv).2.2.1 (h kv hkv).2.2.2]
  rw [hmap]
  -- the scheme
  have hscheme : capitalize (schemeOf (renderAuth fs)) = "Digest".toList := by
    unfold schemeOf
    have hc : (renderAuth fs).contains ' ' = true := by rw [renderAuth_split]; simp
    rw [hc]
    simp only [if_true]
    have : (renderAuth fs).takeWhile (· != ' ') = ['D', 'i', 'g', 'e', 's', 't'] := by
      rw [renderAuth_split]
      exact (takeWhile_append_stop (p := (· != ' ')) ['D', 'i', 'g', 'e', 's', 't'] ' ' _ (by decide) (by decide)).1
    rw [this]; exact capitalize_digest
  rw [hscheme]
  have hnotype : (fs.map (fun kv => (kv.1, Headers.utf8 kv.2))).any (fun e => e.1 == "type".toList) = false := by
    rw [List.any_eq_false]
    intro e he
    obtain ⟨kv, hkv, rfl⟩ := List.mem_map.1 he
    simpa using (hkeys kv hkv).1
  have hds : HeaderValue.dictSet (fs.map (fun kv => (kv.1, Headers.utf8 kv.2))) "type".toList "Digest".toList
      = fs.map (fun kv => (kv.1, Headers.utf8 kv.2)) ++ [("type".toList, "Digest".toList)] := by
    unfold HeaderValue.dictSet
    rw [hnotype]
    simp
  rw [hds]
  have hnostar : dget (fs.map (fun kv => (kv.1, Headers.utf8 kv.2)) ++ [("type".toList, "Digest".toList)])
      "username*" = none := by
    unfold dget
    rw [List.find?_eq_none.2]
    · rfl
    · intro e he
      rcases List.mem_append.1 he with he | he
      · obtain ⟨kv, hkv, rfl⟩ := List.mem_map.1 he
        simpa using (hkeys kv hkv).2
      · simp only [List.mem_singleton] at he
        subst he
        decide
  simp only [hnostar]


/-- the ten fields of an RFC 7616 client in the form they travel in: UTF-8 bytes as latin-1 -/
def wireFields (H : Str → Str) (app : App) (m : Str) (c : Client) : List (Str × Str) :=
  ((clientDict H app m c).dropLast).map fun kv => (kv.1, Headers.iso kv.2)

def clientKeys : List Str :=
  ["username".toList, "realm".toList, "nonce".toList, "uri".toList, "algorithm".toList, "response".toList,
   "opaque".toList, "qop".toList, "nc".toList, "cnonce".toList]

theorem wireFields_keys (H : Str → Str) (app : App) (m : Str) (c : Client) :
    (wireFields H app m c).map (·.1) = clientKeys := by
  simp [wireFields, clientDict, clientKeys, List.dropLast]

theorem clientKeys_ok : ∀ k ∈ clientKeys, k ≠ [] ∧ (∀ ch ∈ k, isWord ch = true) ∧ k ≠ "type".toList ∧
    k ≠ "username*".toList := by decide

/-- **from the header text to the parsed credentials**: the Authorization header an RFC 7616 client
    writes (`Digest username="..", realm="..", ...`, every value quoted, in its wire form) is
    tokenized, unquoted and transcoded to exactly the credentials the gate theorems speak about -/
theorem C11_wire (H : Str → Str) (app : App) (m : Str) (c : Client)
    (hv : ∀ kv ∈ wireFields H app m c, kv.2 ≠ [] ∧ '"' ∉ kv.2) :
    authDict (renderAuth (wireFields H app m c)) = some (clientDict H app m c) := by
  have hkeys := wireFields_keys H app m c
  have hk : ∀ kv ∈ wireFields H app m c, kv.1 ∈ clientKeys := by
    intro kv hkv
    rw [← hkeys]; exact List.mem_map.2 ⟨kv, hkv, rfl⟩
  have hne : wireFields H app m c ≠ [] := by
    intro h0; have := congrArg List.length hkeys; rw [h0] at this; simp [clientKeys] at this
  rw [authDict_render (wireFields H app m c) hne
    (fun kv hkv => ⟨(clientKeys_ok _ (hk kv hkv)).1, (clientKeys_ok _ (hk kv hkv)).2.1, (hv kv hkv).1, (hv kv hkv).2⟩)
    (by rw [hkeys]; decide)
    (fun kv hkv => ⟨(clientKeys_ok _ (hk kv hkv)).2.2.1, (clientKeys_ok _ (hk kv hkv)).2.2.2⟩)]
  congr 1
  simp only [wireFields, List.map_map]
  have hround : ∀ s : Str, Headers.utf8 (Headers.iso s) = s := Poor.Props.C14.C14_transcode_roundtrip
  simp [clientDict, List.dropLast, hround]

end Poor.Digest
