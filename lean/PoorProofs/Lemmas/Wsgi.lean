import PoorModel.Wsgi
/-
A generic invariant of the request ladder: any predicate `P` on response objects that
holds of the built-in pages, of everything `to_response` makes from admissible values
and of everything `HTTPException.make_response` makes from admissible exceptions, holds of
the response that reaches the emission step - for every configuration and every program.
-/
namespace Poor.Wsgi
open Poor Poor.Response

structure Closure (app : App) (P : Resp → Prop) (ValOK : Val → Prop) (ExcOK : Exc → Prop) : Prop where
  page : ∀ c, (c = 500 ∨ c = 501 ∨ app.builtinPages.contains c = true) → P (pageResp c)
  page401 : P { pageResp 401 with headers := [("WWW-Authenticate".toList, "x".toList)] }
  notMod : P notModifiedResp
  coerced : ∀ v r, ValOK v → toResponse app.reasons v = .ok r → P r
  excMade : ∀ e r, ExcOK e → excMakeResponse e = some r → P r
  builtin : ∀ route, ValOK (builtinVal route)
  noneOK : ValOK .none
  framework : ExcOK (.http 405 false false) ∧ ExcOK (.http 403 false false) ∧ ExcOK (.http 404 false false)
    ∧ ExcOK .respErr ∧ ExcOK (.other 5)

def ProgOK (ValOK : Val → Prop) (ExcOK : Exc → Prop) (p : Prog) : Prop :=
  ∀ s, match p s with
    | .ret v => ValOK v
    | .raise e => ExcOK e
    | .same => True

section
variable {app : App} {P : Resp → Prop} {ValOK : Val → Prop} {ExcOK : Exc → Prop}
variable (C : Closure app P ValOK ExcOK) {p : Prog} (hp : ProgOK ValOK ExcOK p)

/-- admissible raw value: from the program, or a response already known to satisfy `P` -/
def VP (P : Resp → Prop) (ValOK : Val → Prop) (v : Val) : Prop := ValOK v ∨ ∃ r, v = .resp r ∧ P r

include C in
theorem coerce_P (t : Trace) (v : Val) (hv : VP P ValOK v) (t' : Trace) (r : Resp)
    (h : coerce app t v = (t', .ok r)) : P r := by
  unfold coerce at h
  split at h
  · rename_i r' hr
    simp only [R.ok, Prod.mk.injEq, Except.ok.injEq] at h
    obtain ⟨_, rfl⟩ := h
    rcases hv with hv | ⟨r0, rfl, hr0⟩
    · exact C.coerced _ _ hv hr
    · simp only [toResponse] at hr; cases hr; exact hr0
  · simp [R.err] at h
  · simp [R.err] at h

include C hp in
theorem callT_ok (s : Site) (e : Ev) (t t' : Trace) (v : Val)
    (h : callT p s e t = (t', .ok v)) : ValOK v := by
  unfold callT at h
  have := hp s
  split at h
  · rename_i v' hv; rw [hv] at this; simp at h; obtain ⟨_, rfl⟩ := h; exact this
  · simp at h
  · simp at h; rw [← h.2]; exact C.noneOK

include hp in
theorem callT_err (s : Site) (e : Ev) (t t' : Trace) (x : Exc)
    (h : callT p s e t = (t', .error x)) : ExcOK x := by
  unfold callT at h
  have := hp s
  split at h
  · simp at h
  · rename_i x' hx; rw [hx] at this; simp at h; obtain ⟨_, rfl⟩ := h; exact this
  · simp at h

include C hp in
theorem stateFromTable_VP (code : Nat) (kw nr : Bool) (t t' : Trace) (v : Val)
    (h : stateFromTable app p code kw nr t = (t', .ok v)) : VP P ValOK v := by
  unfold stateFromTable at h
  split at h
  · -- user status handler
    split at h
    · rename_i t1 v1 hc
      simp only [R.ok, Prod.mk.injEq, Except.ok.injEq] at h
      obtain ⟨_, rfl⟩ := h
      exact Or.inl (callT_ok C hp _ _ _ _ _ hc)
    · rename_i t1 e hc
      have he := callT_err hp _ _ _ _ _ hc
      split at h
      · split at h
        · rename_i r hr
          simp only [R.ok, Prod.mk.injEq, Except.ok.injEq] at h
          obtain ⟨_, rfl⟩ := h
          exact Or.inr ⟨r, rfl, C.excMade _ _ he hr⟩
        · simp only [R.ok, Prod.mk.injEq, Except.ok.injEq] at h
          obtain ⟨_, rfl⟩ := h
          exact Or.inr ⟨_, rfl, C.page 500 (Or.inl rfl)⟩
      · split at h
        · rename_i r hr
          simp only [R.ok, Prod.mk.injEq, Except.ok.injEq] at h
          obtain ⟨_, rfl⟩ := h
          exact Or.inr ⟨r, rfl, C.excMade _ _ he hr⟩
        · simp only [R.ok, Prod.mk.injEq, Except.ok.injEq] at h
          obtain ⟨_, rfl⟩ := h
          exact Or.inr ⟨_, rfl, C.page 500 (Or.inl rfl)⟩
      · split at h
        · simp only [R.ok, Prod.mk.injEq, Except.ok.injEq] at h
          obtain ⟨_, rfl⟩ := h
          exact Or.inr ⟨_, rfl, C.page 500 (Or.inl rfl)⟩
        · simp [R.err] at h
  · split at h
    · rename_i hbp
      split at h
      · simp [R.err] at h
      · split at h
        · simp [R.err] at h
        · split at h
          · simp only [R.ok, Prod.mk.injEq, Except.ok.injEq] at h
            obtain ⟨_, rfl⟩ := h
            exact Or.inr ⟨_, rfl, C.notMod⟩
          · split at h
            · simp only [R.ok, Prod.mk.injEq, Except.ok.injEq] at h
              obtain ⟨_, rfl⟩ := h
              exact Or.inr ⟨_, rfl, C.page401⟩
            · simp only [R.ok, Prod.mk.injEq, Except.ok.injEq] at h
              obtain ⟨_, rfl⟩ := h
              exact Or.inr ⟨_, rfl, C.page code (Or.inr (Or.inr hbp))⟩
    · simp only [R.ok, Prod.mk.injEq, Except.ok.injEq] at h
      obtain ⟨_, rfl⟩ := h
      exact Or.inr ⟨_, rfl, C.page 501 (Or.inr (Or.inl rfl))⟩

include C hp in
theorem fallback500_P (t t' : Trace) (r : Resp) (h : fallback500 app p t = (t', .ok r)) : P r := by
  unfold fallback500 at h
  split at h
  · rename_i t1 v hs
    exact coerce_P C _ _ (stateFromTable_VP C hp _ _ _ _ _ _ hs) _ _ h
  · simp [R.err] at h

include C in
theorem guarded_P (x : R Resp) (hx : ∀ t r, x = (t, .ok r) → P r) : P (guarded x).2 := by
  unfold guarded
  split
  · rename_i t r; exact hx t r rfl
  · exact C.page 500 (Or.inl rfl)

include C hp in
theorem errorFromTable_P (err : Exc) (t t' : Trace) (r : Resp)
    (h : errorFromTable app p err t = (t', .ok (some r))) : P r := by
  unfold errorFromTable at h
  split at h
  · simp [R.ok] at h
  · rename_i i _
    split at h
    · rename_i t1 v hc
      have hv := callT_ok C hp _ _ _ _ _ hc
      split at h
      · rename_i t2 r2 hco
        simp only [R.ok, Prod.mk.injEq, Except.ok.injEq, Option.some.injEq] at h
        obtain ⟨_, rfl⟩ := h
        exact coerce_P C _ _ (Or.inl hv) _ _ hco
      · simp only [R.ok, Prod.mk.injEq, Except.ok.injEq, Option.some.injEq] at h
        obtain ⟨_, rfl⟩ := h
        exact C.page 500 (Or.inl rfl)
    · rename_i t1 e hc
      have he := callT_err hp _ _ _ _ _ hc
      split at h
      · rename_i code kw nr
        split at h
        · rename_i r2 hr
          simp only [R.ok, Prod.mk.injEq, Except.ok.injEq, Option.some.injEq] at h
          obtain ⟨_, rfl⟩ := h
          exact C.excMade _ _ he hr
        · split at h
          · rename_i t2 v hs
            split at h
            · rename_i t3 r3 hco
              simp only [R.ok, Prod.mk.injEq, Except.ok.injEq, Option.some.injEq] at h
              obtain ⟨_, rfl⟩ := h
              exact coerce_P C _ _ (stateFromTable_VP C hp _ _ _ _ _ _ hs) _ _ hco
            · simp [R.err] at h
          · simp [R.err] at h
      · rename_i r2
        simp only [R.ok, Prod.mk.injEq, Except.ok.injEq, Option.some.injEq] at h
        obtain ⟨_, rfl⟩ := h
        exact C.excMade _ _ he rfl
      · split at h
        · simp only [R.ok, Prod.mk.injEq, Except.ok.injEq, Option.some.injEq] at h
          obtain ⟨_, rfl⟩ := h
          exact C.page 500 (Or.inl rfl)
        · simp [R.err] at h

include C hp in
theorem errorResponse_P (err : Exc) (t : Trace) : P (errorResponse app p err t).2 := by
  unfold errorResponse
  apply guarded_P C
  intro t' r h
  split at h
  · rename_i t1 r1 he
    simp only [R.ok, Prod.mk.injEq, Except.ok.injEq] at h
    obtain ⟨_, rfl⟩ := h
    exact errorFromTable_P C hp _ _ _ _ he
  · exact fallback500_P C hp _ _ _ h
  · simp [R.err] at h

def PostOK (ValOK : Val → Prop) (ExcOK : Exc → Prop) (post : AfterProg) : Prop :=
  ∀ j, match post j with
    | .ret v => ValOK v
    | .raise e => ExcOK e
    | .same => True

include C hp in
theorem runAfter_P (post : AfterProg) (hpost : PostOK ValOK ExcOK post) (j k : Nat) (t : Trace) (r : Resp)
    (hr : P r) : P (runAfter app p post j k t r).2 := by
  induction k generalizing j t r with
  | zero => exact hr
  | succ k ih =>
    unfold runAfter
    split
    · exact ih _ _ _ hr
    · split
      · rename_i t1 v hc
        have hv : ValOK v := by
          unfold callA at hc
          have := hpost j
          split at hc
          · rename_i v' hv'; rw [hv'] at this; simp at hc; obtain ⟨_, rfl⟩ := hc; exact this
          · simp at hc
          · simp at hc; rw [← hc.2]; exact C.noneOK
        split
        · rename_i t2 r' hco
          exact ih _ _ _ (coerce_P C _ _ (Or.inl hv) _ _ hco)
        · exact errorResponse_P C hp _ _
      · exact errorResponse_P C hp _ _

include hp in
theorem runBefore_err (i k : Nat) (t t' : Trace) (e : Exc)
    (h : runBefore p i k t = (t', .error e)) : ExcOK e := by
  induction k generalizing i t with
  | zero => simp [runBefore, R.ok] at h
  | succ k ih =>
    unfold runBefore at h
    split at h
    · exact ih _ _ h
    · rename_i t1 e1 hc
      simp only [R.err, Prod.mk.injEq, Except.error.injEq] at h
      obtain ⟨_, rfl⟩ := h
      exact callT_err hp _ _ _ _ _ hc

include C hp in
theorem dispatch_ok (route : Route) (t t' : Trace) (v : Val)
    (h : dispatch app p route t = (t', .ok v)) : ValOK v := by
  unfold dispatch at h
  split at h
  · simp [R.err] at h
  · cases route <;> simp only [R.err, R.ok, Prod.mk.injEq] at h
    all_goals first
      | exact callT_ok C hp _ _ _ _ _ h
      | (obtain ⟨_, h2⟩ := h; cases h2; exact C.builtin _)
      | (obtain ⟨_, h2⟩ := h; cases h2)

include C hp in
theorem dispatch_err (route : Route) (t t' : Trace) (e : Exc)
    (h : dispatch app p route t = (t', .error e)) : ExcOK e := by
  unfold dispatch at h
  obtain ⟨f1, f2, f3, _, _⟩ := C.framework
  split at h
  · rename_i t1 e1 hb
    simp only [R.err, Prod.mk.injEq, Except.error.injEq] at h
    obtain ⟨_, rfl⟩ := h
    exact runBefore_err hp _ _ _ _ _ hb
  · cases route <;> simp only [R.err, R.ok, Prod.mk.injEq] at h
    all_goals first
      | exact callT_err hp _ _ _ _ _ h
      | (obtain ⟨_, h2⟩ := h; injection h2 with h2; rw [← h2]; assumption)
      | (obtain ⟨_, h2⟩ := h; cases h2)

include C hp in
/-- the response object (if any) produced by the exception ladder -/
theorem ladder_P (t : Trace) (e : Exc) (he : ExcOK e) (t' : Trace) (r : Resp)
    (h : ladder app p t e = (t', some r)) : P r := by
  unfold ladder at h
  cases e with
  | http code kw nr =>
    simp only at h
    split at h
    · rename_i r2 hr
      simp only [Prod.mk.injEq, Option.some.injEq] at h
      obtain ⟨_, rfl⟩ := h
      exact C.excMade _ _ he hr
    · simp only [Prod.mk.injEq, Option.some.injEq] at h
      obtain ⟨_, rfl⟩ := h
      apply guarded_P C
      intro t3 r3 h3
      split at h3
      · rename_i t1 v hs
        exact coerce_P C _ _ (stateFromTable_VP C hp _ _ _ _ _ _ hs) _ _ h3
      · simp [R.err] at h3
  | httpResp r2 =>
    simp only [Prod.mk.injEq, Option.some.injEq] at h
    obtain ⟨_, rfl⟩ := h
    exact C.excMade _ _ he rfl
  | conn => simp at h
  | sysExit => simp at h
  | respErr =>
    simp only [Prod.mk.injEq, Option.some.injEq] at h
    obtain ⟨_, rfl⟩ := h
    exact guarded_P C _ (fun t3 r3 h3 => fallback500_P C hp _ _ _ h3)
  | other c =>
    simp only [Prod.mk.injEq, Option.some.injEq] at h
    obtain ⟨_, rfl⟩ := h
    exact errorResponse_P C hp _ _
  | base =>
    simp only [Prod.mk.injEq, Option.some.injEq] at h
    obtain ⟨_, rfl⟩ := h
    exact errorResponse_P C hp _ _

include C hp in
theorem phase1_ok (ctor : Option Exc) (route : Route) (t : Trace) (r : Resp)
    (h : phase1 app p ctor route = (t, .ok r)) : P r := by
  unfold phase1 at h
  split at h
  · simp [R.err] at h
  · split at h
    · rename_i t2 v hd
      exact coerce_P C _ _ (Or.inl (dispatch_ok C hp _ _ _ _ hd)) _ _ h
    · simp [R.err] at h

include C hp in
theorem phase1_err (ctor : Option Exc) (hc : ∀ e, ctor = some e → ExcOK e) (route : Route)
    (t : Trace) (e : Exc) (h : phase1 app p ctor route = (t, .error e)) : ExcOK e := by
  obtain ⟨_, _, _, f4, f5⟩ := C.framework
  unfold phase1 at h
  split at h
  · rename_i e0
    simp only [R.err, Prod.mk.injEq, Except.error.injEq] at h
    obtain ⟨_, rfl⟩ := h
    exact hc _ rfl
  · split at h
    · rename_i t2 v hd
      unfold coerce at h
      split at h
      · simp [R.ok] at h
      · simp only [R.err, Prod.mk.injEq, Except.error.injEq] at h; rw [← h.2]; exact f4
      · simp only [R.err, Prod.mk.injEq, Except.error.injEq] at h; rw [← h.2]; exact f5
    · rename_i t2 e2 hd
      simp only [R.err, Prod.mk.injEq, Except.error.injEq] at h
      obtain ⟨_, rfl⟩ := h
      exact dispatch_err C hp _ _ _ _ hd

include C hp in
theorem preAfter_P (ctor : Option Exc) (hc : ∀ e, ctor = some e → ExcOK e) (route : Route)
    (t : Trace) (r : Resp) (h : preAfter app p ctor route = (t, some r)) : P r := by
  unfold preAfter at h
  split at h
  · rename_i t0 r0 hph
    simp only [Prod.mk.injEq, Option.some.injEq] at h
    obtain ⟨_, rfl⟩ := h
    exact phase1_ok C hp _ _ _ _ hph
  · rename_i t0 e hph
    exact ladder_P C hp t0 e (phase1_err C hp _ hc _ _ _ hph) _ _ h

include C hp in
/-- **the generic ladder invariant**: the response that reaches emission satisfies `P` -/
theorem respond_P (post : AfterProg) (hpost : PostOK ValOK ExcOK post) (ctor : Option Exc)
    (hc : ∀ e, ctor = some e → ExcOK e) (route : Route)
    (t : Trace) (r : Resp) (h : respond app p post ctor route = (t, some r)) : P r := by
  unfold respond at h
  split at h
  · simp at h
  · rename_i t0 r0 hpre
    simp only [afterAll, Prod.mk.injEq, Option.some.injEq] at h
    obtain ⟨_, rfl⟩ := h
    exact runAfter_P C hp post hpost _ _ _ _ (preAfter_P C hp ctor hc route _ _ hpre)

end

end Poor.Wsgi
