import PoorModel.Json
import Std.Data.String.ToNat
/-
Lemmas about the JSON codec model (PoorModel/Json.lean): the string scanner inverts the string writer
(`scanStr_tail`), the number scanner inverts `str(int)` (`pNumber_dumpInt`), and the recursive-descent
parser inverts `dump` on every well-formed value (`roundtrip_value`, by the recursor of the nested type).
-/
namespace Poor.Json
open Poor
theorem ofNat_toNat_small : ∀ c, c ≤ 126 → (Char.ofNat c).toNat = c := by decide +kernel

theorem scan_plain (c : Nat) (h1 : 32 ≤ c) (h2 : c ≤ 126) (h3 : c ≠ 34) (h4 : c ≠ 92) (t : Str) (acc : CpStr) :
    scanStr (Char.ofNat c :: t) acc = scanStr t (c :: acc) := by
  have hn := ofNat_toNat_small c h2
  have e1 : Char.ofNat c ≠ '"' := by intro h; rw [h] at hn; simp at hn; omega
  have e2 : Char.ofNat c ≠ '\\' := by intro h; rw [h] at hn; simp at hn; omega
  rw [scanStr.eq_def]
  simp only [e1, e2, if_false, hn]
  rw [if_neg (by omega)]

theorem scan_short (e : Char) (v : Nat) (he : e ≠ 'u') (hv : unesc e = some v) (t : Str) (acc : CpStr) :
    scanStr ('\\' :: e :: t) acc = scanStr t (v :: acc) := by
  rw [scanStr.eq_def]
  simp [he, hv]
end Poor.Json
namespace Poor.Json
open Poor
theorem hexVal_hexd : ∀ d, d < 16 → hexVal (hexd d) = some d := by decide

theorem hex4?_hex4 (n : Nat) (h : n < 65536) (r : Str) : hex4? (hex4 n ++ r) = some (n, r) := by
  simp only [hex4, List.cons_append, List.nil_append, hex4?]
  rw [hexVal_hexd _ (Nat.mod_lt _ (by decide)), hexVal_hexd _ (Nat.mod_lt _ (by decide)),
      hexVal_hexd _ (Nat.mod_lt _ (by decide)), hexVal_hexd _ (Nat.mod_lt _ (by decide))]
  simp only [Option.some.injEq, Prod.mk.injEq, and_true]
  omega

theorem scan_u1 (u : Nat) (hu : u < 65536) (t : Str) (ht : t ≠ []) (hp : pairAt u t = some none) (acc : CpStr) :
    scanStr (uesc u ++ t) acc = scanStr t (u :: acc) := by
  rw [scanStr.eq_def]
  simp only [uesc, List.cons_append]
  have e1 : ('\\' : Char) ≠ '"' := by decide
  simp only [e1, if_false, if_true]
  split
  · rename_i h; rw [hex4?_hex4 u hu t] at h; simp at h
  · rename_i u' r3 h
    rw [hex4?_hex4 u hu t] at h
    simp only [Option.some.injEq, Prod.mk.injEq] at h
    obtain ⟨rfl, rfl⟩ := h
    have : t.isEmpty = false := by cases t <;> simp_all
    simp only [this, Bool.false_eq_true, if_false]
    split
    · rename_i h5; rw [hp] at h5; simp at h5
    · rfl
    · rename_i j r5 h5; rw [hp] at h5; simp at h5

theorem pairAt_join (hi lo : Nat) (hh : isHigh hi = true) (hl : isLow lo = true) (t : Str) (ht : t ≠ []) :
    pairAt hi (uesc lo ++ t) = some (some (joinSur hi lo, t)) := by
  have hlo : lo < 65536 := by simp [isLow] at hl; omega
  have e : uesc lo ++ t = '\\' :: 'u' :: (hex4 lo ++ t) := rfl
  have hlen : 7 ≤ ('\\' :: 'u' :: (hex4 lo ++ t)).length := by
    cases t with
    | nil => exact absurd rfl ht
    | cons a t => simp only [hex4, List.length_cons, List.length_append, List.length_nil]; omega
  rw [e]
  unfold pairAt
  rw [if_pos (by simp only [hh, decide_eq_true hlen, Bool.and_self])]
  simp only [hex4?_hex4 lo hlo t, hl, if_true]

theorem scan_u2 (hi lo : Nat) (hh : isHigh hi = true) (hl : isLow lo = true) (t : Str) (ht : t ≠ []) (acc : CpStr) :
    scanStr (uesc hi ++ (uesc lo ++ t)) acc = scanStr t (joinSur hi lo :: acc) := by
  have hhi : hi < 65536 := by simp [isHigh] at hh; omega
  rw [scanStr.eq_def]
  simp only [uesc, List.cons_append]
  have e1 : ('\\' : Char) ≠ '"' := by decide
  simp only [e1, if_false, if_true]
  split
  · rename_i h; rw [hex4?_hex4 hi hhi] at h; simp at h
  · rename_i u' r3 h
    rw [hex4?_hex4 hi hhi] at h
    simp only [Option.some.injEq, Prod.mk.injEq] at h
    obtain ⟨rfl, rfl⟩ := h
    have hp := pairAt_join hi lo hh hl t ht
    simp only [uesc, List.cons_append] at hp
    simp only [List.isEmpty_cons, Bool.false_eq_true, if_false]
    split
    · rename_i h5; rw [hp] at h5; simp at h5
    · rename_i h5; rw [hp] at h5; simp at h5
    · rename_i j r5 h5; rw [hp] at h5
      simp only [Option.some.injEq, Prod.mk.injEq] at h5
      obtain ⟨rfl, rfl⟩ := h5; rfl
end Poor.Json
namespace Poor.Json
open Poor
theorem pairAt_head_ne (u : Nat) (a : Char) (T : Str) (h : a ≠ '\\') : pairAt u (a :: T) = some none := by
  unfold pairAt
  split
  · split
    · rename_i heq; simp only [List.cons.injEq] at heq; exact absurd heq.1 h
    · rfl
  · rfl

theorem pairAt_second_ne (u : Nat) (b : Char) (T : Str) (h : b ≠ 'u') : pairAt u ('\\' :: b :: T) = some none := by
  unfold pairAt
  split
  · split
    · rename_i heq; simp only [List.cons.injEq] at heq; exact absurd heq.2.1 h
    · rfl
  · rfl

theorem pairAt_uesc_notlow (u n : Nat) (T : Str) (hn : n < 65536) (h : isLow n = false) :
    pairAt u (uesc n ++ T) = some none := by
  have e : uesc n ++ T = '\\' :: 'u' :: (hex4 n ++ T) := rfl
  rw [e]
  unfold pairAt
  split
  · simp only [hex4?_hex4 n hn T, h, Bool.false_eq_true, if_false]
  · rfl

def NoPair : CpStr → Prop
  | a :: b :: r => ¬ (isHigh a = true ∧ isLow b = true) ∧ NoPair (b :: r)
  | _ => True

def tailText (s : CpStr) (rest : Str) : Str := s.flatMap escChar ++ '"' :: rest

theorem tailText_cons (c : Nat) (s : CpStr) (rest : Str) :
    tailText (c :: s) rest = escChar c ++ tailText s rest := by
  simp [tailText]

theorem ofNat_toNat_small' : ∀ c, c ≤ 126 → (Char.ofNat c).toNat = c := by decide +kernel

theorem pairAt_tail (u : Nat) (s : CpStr) (rest : Str) (hs : ∀ c ∈ s, c < 0x110000)
    (hn : ∀ b r, s = b :: r → ¬ (isHigh u = true ∧ isLow b = true)) :
    pairAt u (tailText s rest) = some none := by
  by_cases hu : isHigh u = true
  · cases s with
    | nil => exact pairAt_head_ne u '"' rest (by decide)
    | cons b r =>
      have hb := hs b (List.mem_cons_self)
      have hnl : isLow b = false := by
        have := hn b r rfl
        cases h : isLow b
        · rfl
        · exact absurd ⟨hu, h⟩ this
      rw [tailText_cons]
      unfold escChar
      split; · exact pairAt_second_ne _ _ _ (by decide)
      split; · exact pairAt_second_ne _ _ _ (by decide)
      split; · exact pairAt_second_ne _ _ _ (by decide)
      split; · exact pairAt_second_ne _ _ _ (by decide)
      split; · exact pairAt_second_ne _ _ _ (by decide)
      split; · exact pairAt_second_ne _ _ _ (by decide)
      split; · exact pairAt_second_ne _ _ _ (by decide)
      split
      · rename_i h1 h2 h3 h4 h5 h6 h7 h8
        apply pairAt_head_ne
        intro h
        have := ofNat_toNat_small' b h8.2
        rw [h] at this; simp at this; omega
      split
      · rename_i h9; exact pairAt_uesc_notlow u b _ h9 hnl
      · rw [List.append_assoc]
        apply pairAt_uesc_notlow
        · omega
        · simp [isLow]; omega
  · unfold pairAt
    simp [hu]
end Poor.Json
namespace Poor.Json
open Poor
def StrOK (s : CpStr) : Prop := (∀ c ∈ s, c < 0x110000) ∧ NoPair s

theorem StrOK.tail {c : Nat} {s : CpStr} (h : StrOK (c :: s)) : StrOK s := by
  refine ⟨fun x hx => h.1 x (List.mem_cons_of_mem _ hx), ?_⟩
  cases s with
  | nil => trivial
  | cons b r => exact h.2.2

theorem tailText_ne_nil (s : CpStr) (rest : Str) : tailText s rest ≠ [] := by
  unfold tailText; cases h : s.flatMap escChar <;> simp

theorem scanStr_tail (s : CpStr) : ∀ (acc : CpStr) (rest : Str), StrOK s →
    scanStr (tailText s rest) acc = .ok (acc.reverse ++ s) rest := by
  induction s with
  | nil =>
    intro acc rest _
    rw [scanStr.eq_def]; simp [tailText]
  | cons c s ih =>
    intro acc rest hok
    have hT := tailText_ne_nil s rest
    have hc : c < 0x110000 := hok.1 c List.mem_cons_self
    have fin : scanStr (tailText s rest) (c :: acc) = .ok (acc.reverse ++ c :: s) rest := by
      rw [ih (c :: acc) rest hok.tail]; simp
    rw [tailText_cons]
    unfold escChar
    split; · rename_i h; subst h; exact (scan_short '"' 34 (by decide) (by decide) _ acc).trans fin
    split; · rename_i h; subst h; exact (scan_short '\\' 92 (by decide) (by decide) _ acc).trans fin
    split; · rename_i h; subst h; exact (scan_short 'n' 10 (by decide) (by decide) _ acc).trans fin
    split; · rename_i h; subst h; exact (scan_short 'r' 13 (by decide) (by decide) _ acc).trans fin
    split; · rename_i h; subst h; exact (scan_short 't' 9 (by decide) (by decide) _ acc).trans fin
    split; · rename_i h; subst h; exact (scan_short 'f' 12 (by decide) (by decide) _ acc).trans fin
    split; · rename_i h; subst h; exact (scan_short 'b' 8 (by decide) (by decide) _ acc).trans fin
    split
    · rename_i h1 h2 h3 h4 h5 h6 h7 h8
      exact (scan_plain c h8.1 h8.2 h1 h2 _ acc).trans fin
    split
    · rename_i h9
      refine (scan_u1 c h9 _ hT (pairAt_tail c s rest (fun x hx => hok.1 x (List.mem_cons_of_mem _ hx)) ?_) acc).trans fin
      intro b r hs
      subst hs
      exact hok.2.1
    · rename_i h9
      rw [List.append_assoc]
      have hj : joinSur (0xd800 + (c - 65536) / 1024 % 1024) (0xdc00 + (c - 65536) % 1024) = c := by
        unfold joinSur; omega
      have := scan_u2 (0xd800 + (c - 65536) / 1024 % 1024) (0xdc00 + (c - 65536) % 1024)
        (by simp [isHigh]; omega) (by simp [isLow]; omega) _ hT acc
      rw [hj] at this
      exact this.trans fin
end Poor.Json

namespace Poor.Json
open Poor
open Poor.HeaderValue (isDigit natOfDigits)

theorem digitsOf_eq (n : Nat) : digitsOf n = Nat.toDigits 10 n := by
  unfold digitsOf
  rw [show toString n = n.repr from rfl, Nat.toList_repr]

theorem digitsOf_isDigit (n : Nat) : ∀ c ∈ digitsOf n, isDigit c = true := by
  intro c hc
  rw [digitsOf_eq] at hc
  have hd := Nat.isDigit_of_mem_toDigits (by decide) (by decide) hc
  have := Char.isDigit_iff_toNat.mp hd
  simp only [isDigit, Bool.and_eq_true, decide_eq_true_eq]
  constructor
  · exact Char.le_def.mpr (by simpa [UInt32.le_iff_toNat_le] using this.1)
  · exact Char.le_def.mpr (by simpa [UInt32.le_iff_toNat_le] using this.2)

theorem natOfDigits_digitsOf (n : Nat) : natOfDigits (digitsOf n) = n := by
  unfold natOfDigits digitsOf
  rw [String.ofList_toList]
  have : (toString n).toNat? = some n := Nat.toNat?_repr n
  rw [this]; rfl

theorem digitChar_lead : ∀ n, 0 < n → n < 10 → Nat.digitChar n ≠ '0' := by
  intro n h0 h10
  have : ∀ k, k < 10 → 0 < k → Nat.digitChar k ≠ '0' := by decide
  exact this n h10 h0

/-- the first digit of a positive number is not `0` -/
theorem lead_digit (n : Nat) (h : 0 < n) : ∃ d ds, digitsOf n = d :: ds ∧ d ≠ '0' := by
  rw [digitsOf_eq]
  induction n using Nat.strongRecOn with
  | _ n ih =>
    rw [Nat.toDigits_eq_if (by decide)]
    split
    · rename_i hlt; exact ⟨_, [], rfl, digitChar_lead n h hlt⟩
    · rename_i hge
      obtain ⟨d, ds, e, hd⟩ := ih (n / 10) (by omega) (by omega)
      exact ⟨d, ds ++ [Nat.digitChar (n % 10)], by rw [e]; rfl, hd⟩

theorem digitsOf_zero : digitsOf 0 = ['0'] := by rw [digitsOf_eq]; exact Nat.toDigits_zero 10

/-- a character that would continue a number -/
def numCont (c : Char) : Bool := isDigit c || c = '.' || c = 'e' || c = 'E'

/-- what follows a value does not continue a number (a separator, a closing bracket, white space, the end) -/
def SepOK (rest : Str) : Prop := ∀ c r, rest = c :: r → numCont c = false

theorem dropFrac_sep (rest : Str) (h : SepOK rest) : dropFrac rest = (false, rest) := by
  unfold dropFrac
  split
  · rename_i d r
    have := h '.' (d :: r) rfl
    exact absurd this (by decide)
  · rfl

theorem dropExp_sep (rest : Str) (h : SepOK rest) : dropExp rest = (false, rest) := by
  unfold dropExp
  split
  · rename_i e c r'
    have := h e (c :: r') rfl
    split
    · rename_i he
      rcases he with rfl | rfl <;> exact absurd this (by decide)
    · rfl
  · rfl

theorem finishNumber_sep (neg : Bool) (ds rest : Str) (h : SepOK rest) (hl : ds.length ≤ INT_MAX_DIGITS) :
    finishNumber neg ds rest = .ok (.int (if neg then - (natOfDigits ds : Int) else natOfDigits ds)) rest := by
  unfold finishNumber
  rw [dropFrac_sep rest h]
  simp only [dropExp_sep rest h, Bool.or_self, Bool.false_eq_true, if_false]
  rw [if_neg (by omega)]

theorem takeWhile_digits (d rest : Str) (hd : ∀ c ∈ d, isDigit c = true) (hr : SepOK rest) :
    (d ++ rest).takeWhile isDigit = d ∧ (d ++ rest).dropWhile isDigit = rest := by
  induction d with
  | nil =>
    cases rest with
    | nil => simp
    | cons c r =>
      have : isDigit c = false := by
        have := hr c r rfl
        simp only [numCont, Bool.or_eq_false_iff] at this
        exact this.1.1.1
      simp [List.takeWhile, List.dropWhile, this]
  | cons a d ih =>
    have ha := hd a List.mem_cons_self
    have := ih (fun c hc => hd c (List.mem_cons_of_mem _ hc))
    simp [List.takeWhile, List.dropWhile, ha, this.1, this.2]

theorem pDigits_digitsOf (neg : Bool) (n : Nat) (rest : Str) (h : SepOK rest)
    (hl : (digitsOf n).length ≤ INT_MAX_DIGITS) :
    pDigits neg (digitsOf n ++ rest) = .ok (.int (if neg then - (n : Int) else n)) rest := by
  by_cases hn : n = 0
  · subst hn
    rw [digitsOf_zero]
    simp only [pDigits, List.cons_append, List.nil_append, if_true]
    rw [finishNumber_sep neg ['0'] rest h (by decide)]
    have : natOfDigits ['0'] = 0 := by rw [← digitsOf_zero]; exact natOfDigits_digitsOf 0
    rw [this]
  · obtain ⟨d, ds, e, hd⟩ := lead_digit n (by omega)
    have hall := digitsOf_isDigit n
    rw [e] at hall hl
    have hdig := hall d List.mem_cons_self
    have hrange : '1' ≤ d ∧ d ≤ '9' := by
      simp only [isDigit, Bool.and_eq_true, decide_eq_true_eq] at hdig
      refine ⟨?_, hdig.2⟩
      have h0 := hdig.1
      rw [Char.le_def] at h0 ⊢
      have : d.val ≠ ('0' : Char).val := fun hv => hd (Char.ext hv)
      simp only [UInt32.le_iff_toNat_le] at h0 ⊢
      have : d.val.toNat ≠ ('0' : Char).val.toNat := fun hv => this (UInt32.toNat_inj.mp hv)
      simp at h0 this ⊢
      omega
    have htw := takeWhile_digits ds rest (fun c hc => hall c (List.mem_cons_of_mem _ hc)) h
    rw [e]
    simp only [pDigits, List.cons_append, hd, if_false, hrange, and_self, if_true, htw.1, htw.2]
    rw [finishNumber_sep neg (d :: ds) rest h hl, ← e, natOfDigits_digitsOf]

theorem pNumber_dumpInt (i : Int) (rest : Str) (h : SepOK rest)
    (hl : (digitsOf i.natAbs).length ≤ INT_MAX_DIGITS) :
    pNumber (dumpInt i ++ rest) = .ok (.int i) rest := by
  unfold dumpInt
  split
  · rename_i hneg
    simp only [List.cons_append, pNumber]
    rw [pDigits_digitsOf true i.natAbs rest h hl]
    simp only [if_true]
    congr 2; omega
  · rename_i hpos
    have hne : ∀ r, digitsOf i.natAbs ++ rest ≠ '-' :: r := by
      intro r hr
      by_cases hn : i.natAbs = 0
      · rw [hn, digitsOf_zero] at hr; simp at hr
      · obtain ⟨d, ds, e, _⟩ := lead_digit i.natAbs (by omega)
        have := digitsOf_isDigit i.natAbs d (by rw [e]; exact List.mem_cons_self)
        rw [e] at hr
        simp only [List.cons_append, List.cons.injEq] at hr
        rw [hr.1] at this
        revert this; decide
    unfold pNumber
    split
    · rename_i r heq; exact absurd heq (hne r)
    · rw [pDigits_digitsOf false i.natAbs rest h hl]
      simp only [Bool.false_eq_true, if_false]
      congr 2; omega
end Poor.Json

namespace Poor.Json
open Poor
open Poor.HeaderValue (isDigit natOfDigits)

/-! ### well-formed values -/
mutual
/-- a Python value the JSON round trip preserves: no float (not modelled), integers of at most 4300 digits
    (`int()` refuses more), strings of Unicode code points without an adjacent surrogate pair -/
def JOk : J → Prop
  | .null => True
  | .bool _ => True
  | .int i => (digitsOf i.natAbs).length ≤ INT_MAX_DIGITS
  | .float => False
  | .str s => StrOK s
  | .arr l => JOks l
  | .obj l => MOk l ∧ (l.map Prod.fst).Nodup
def JOks : List J → Prop
  | [] => True
  | x :: xs => JOk x ∧ JOks xs
def MOk : List (CpStr × J) → Prop
  | [] => True
  | (k, v) :: r => StrOK k ∧ JOk v ∧ MOk r
end

def dumpElems : List J → Str
  | [] => []
  | x :: xs => dump x ++ dumpTail xs

def dumpPairs : List (CpStr × J) → Str
  | [] => []
  | (k, v) :: r => dumpStr k ++ ':' :: ' ' :: (dump v ++ dumpMembers r)

theorem dumpStr_eq (s : CpStr) (rest : Str) : dumpStr s ++ rest = '"' :: tailText s rest := by
  simp [dumpStr, tailText]

/-- the first character of a dumped value: not white space, not a closing bracket -/
abbrev HeadOK (c : Char) : Prop := isWs c = false ∧ c ≠ ']' ∧ c ≠ '}'

theorem headOK_of_digit (c : Char) (h : isDigit c = true) : HeadOK c := by
  simp only [isDigit, Bool.and_eq_true, decide_eq_true_eq] at h
  refine ⟨?_, ?_, ?_⟩
  · simp only [isWs, Bool.or_eq_false_iff, decide_eq_false_iff_not]
    refine ⟨⟨⟨?_, ?_⟩, ?_⟩, ?_⟩ <;> (intro e; subst e; revert h; decide)
  · intro e; subst e; revert h; decide
  · intro e; subst e; revert h; decide

theorem digit_ne (c d : Char) (hc : isDigit c = true) (hd : isDigit d = false) : c ≠ d := by
  intro e; subst e; rw [hc] at hd; cases hd

theorem dumpInt_head (i : Int) : ∃ c r, dumpInt i = c :: r ∧ HeadOK c ∧ (c = '-' ∨ isDigit c = true) ∧
    (c = '-' → ∃ d r', r = d :: r' ∧ isDigit d = true) := by
  unfold dumpInt
  have hne : ∀ n, ∃ d r, digitsOf n = d :: r ∧ isDigit d = true := by
    intro n
    cases h : digitsOf n with
    | nil =>
      rw [digitsOf_eq] at h
      exact absurd h Nat.toDigits_ne_nil
    | cons d r => exact ⟨d, r, rfl, digitsOf_isDigit n d (by rw [h]; exact List.mem_cons_self)⟩
  split
  · obtain ⟨d, r, e, hd⟩ := hne i.natAbs
    exact ⟨'-', _, rfl, by decide, Or.inl rfl, fun _ => ⟨d, r, e, hd⟩⟩
  · obtain ⟨d, r, e, hd⟩ := hne i.natAbs
    refine ⟨d, r, e, headOK_of_digit d hd, Or.inr hd, ?_⟩
    intro h
    exact absurd h (digit_ne d '-' hd (by decide))

theorem dump_head (v : J) : ∃ c r, dump v = c :: r ∧ HeadOK c := by
  cases v with
  | null => exact ⟨'n', ['u', 'l', 'l'], by simp [dump], by decide⟩
  | bool b =>
    cases b
    · exact ⟨'f', ['a', 'l', 's', 'e'], by simp [dump], by decide⟩
    · exact ⟨'t', ['r', 'u', 'e'], by simp [dump], by decide⟩
  | int i =>
    obtain ⟨c, r, e, h, _⟩ := dumpInt_head i
    exact ⟨c, r, by simp [dump, e], h⟩
  | float => exact ⟨'0', ['.', '0'], by simp [dump], by decide⟩
  | str s => exact ⟨'"', s.flatMap escChar ++ ['"'], by simp [dump, dumpStr], by decide⟩
  | arr l =>
    cases l with
    | nil => exact ⟨'[', [']'], by simp [dump], by decide⟩
    | cons x xs => exact ⟨'[', dump x ++ dumpTail xs, by simp [dump], by decide⟩
  | obj l =>
    cases l with
    | nil => exact ⟨'{', ['}'], by simp [dump], by decide⟩
    | cons kv r =>
      obtain ⟨k, v⟩ := kv
      exact ⟨'{', dumpStr k ++ ':' :: ' ' :: (dump v ++ dumpMembers r), by simp [dump], by decide⟩

theorem skipWs_dump (v : J) (T : Str) : skipWs (dump v ++ T) = dump v ++ T := by
  obtain ⟨c, r, e, h, _⟩ := dump_head v
  rw [e]; simp [skipWs, List.dropWhile, h]

theorem skipWs_blank_dump (v : J) (T : Str) : skipWs (' ' :: (dump v ++ T)) = dump v ++ T := by
  have : skipWs (' ' :: (dump v ++ T)) = skipWs (dump v ++ T) := by
    simp [skipWs, List.dropWhile, isWs]
  rw [this, skipWs_dump]

theorem dump_length_pos (v : J) : 0 < (dump v).length := by
  obtain ⟨c, r, e, _⟩ := dump_head v
  rw [e]; simp

theorem sepOK_dumpTail (xs : List J) (rest : Str) : SepOK (dumpTail xs ++ rest) := by
  intro c r h
  cases xs <;> simp only [dumpTail, List.cons_append, List.cons.injEq] at h <;> (rw [← h.1]; decide)

theorem sepOK_dumpMembers (xs : List (CpStr × J)) (rest : Str) : SepOK (dumpMembers xs ++ rest) := by
  intro c r h
  cases xs with
  | nil => simp only [dumpMembers, List.cons_append, List.cons.injEq] at h; rw [← h.1]; decide
  | cons kv t => obtain ⟨k, v⟩ := kv; simp only [dumpMembers, List.cons_append, List.cons.injEq] at h; rw [← h.1]; decide

theorem dumpTail_length_pos (xs : List J) : 0 < (dumpTail xs).length := by
  cases xs <;> simp [dumpTail]

theorem dumpMembers_length_pos (xs : List (CpStr × J)) : 0 < (dumpMembers xs).length := by
  cases xs with
  | nil => simp [dumpMembers]
  | cons kv t => obtain ⟨k, v⟩ := kv; simp [dumpMembers]

theorem dset_fresh (acc : List (CpStr × J)) (k : CpStr) (v : J) (h : k ∉ acc.map Prod.fst) :
    dset acc k v = acc ++ [(k, v)] := by
  induction acc with
  | nil => rfl
  | cons a acc ih =>
    obtain ⟨k', v'⟩ := a
    simp only [List.map_cons, List.mem_cons, not_or] at h
    simp only [dset, List.cons_append]
    rw [if_neg (fun e => h.1 e.symm), ih h.2]

/-! ### literals and numbers inside `pValue` -/

theorem startsWith_cons_ne (c d : Char) (T p : Str) (h : c ≠ d) : startsWith (c :: T) (d :: p) = none := by
  unfold startsWith
  rw [if_neg]
  simp only [List.isPrefixOf, Bool.and_eq_true, beq_iff_eq, not_and]
  intro e; exact absurd e.symm h

theorem pLiteral_digit (c : Char) (T : Str) (h : isDigit c = true) : pLiteral (c :: T) = none := by
  have ne : ∀ d : Char, isDigit d = false → c ≠ d := by intro d hd e; subst e; rw [h] at hd; cases hd
  unfold pLiteral
  rw [show "null".toList = 'n' :: ['u', 'l', 'l'] from rfl, startsWith_cons_ne _ _ _ _ (ne 'n' (by decide)),
      show "true".toList = 't' :: ['r', 'u', 'e'] from rfl, startsWith_cons_ne _ _ _ _ (ne 't' (by decide)),
      show "false".toList = 'f' :: ['a', 'l', 's', 'e'] from rfl, startsWith_cons_ne _ _ _ _ (ne 'f' (by decide)),
      show "NaN".toList = 'N' :: ['a', 'N'] from rfl, startsWith_cons_ne _ _ _ _ (ne 'N' (by decide)),
      show "Infinity".toList = 'I' :: "nfinity".toList from rfl, startsWith_cons_ne _ _ _ _ (ne 'I' (by decide)),
      show "-Infinity".toList = '-' :: "Infinity".toList from rfl, startsWith_cons_ne _ _ _ _ (ne '-' (by decide))]

theorem pLiteral_minus_digit (c : Char) (T : Str) (h : isDigit c = true) : pLiteral ('-' :: c :: T) = none := by
  have ne : c ≠ 'I' := by intro e; subst e; revert h; decide
  unfold pLiteral
  rw [show "null".toList = 'n' :: ['u', 'l', 'l'] from rfl, startsWith_cons_ne _ _ _ _ (by decide),
      show "true".toList = 't' :: ['r', 'u', 'e'] from rfl, startsWith_cons_ne _ _ _ _ (by decide),
      show "false".toList = 'f' :: ['a', 'l', 's', 'e'] from rfl, startsWith_cons_ne _ _ _ _ (by decide),
      show "NaN".toList = 'N' :: ['a', 'N'] from rfl, startsWith_cons_ne _ _ _ _ (by decide),
      show "Infinity".toList = 'I' :: "nfinity".toList from rfl, startsWith_cons_ne _ _ _ _ (by decide)]
  rw [show "-Infinity".toList = '-' :: 'I' :: "nfinity".toList from rfl]
  unfold startsWith
  rw [if_neg]
  simp only [List.isPrefixOf, Bool.and_eq_true, beq_iff_eq, not_and]
  intro _ e; exact absurd e.symm ne

theorem pLiteral_dumpInt (i : Int) (rest : Str) : pLiteral (dumpInt i ++ rest) = none := by
  obtain ⟨c, r, e, _, hc, hm⟩ := dumpInt_head i
  rw [e]
  rcases hc with rfl | hd
  · obtain ⟨d, r', e2, hd⟩ := hm rfl
    rw [e2]; exact pLiteral_minus_digit d _ hd
  · exact pLiteral_digit c _ hd

theorem pValue_int (f : Nat) (i : Int) (rest : Str) (h : SepOK rest)
    (hl : (digitsOf i.natAbs).length ≤ INT_MAX_DIGITS) :
    pValue (f + 1) (dumpInt i ++ rest) = .ok (.int i) rest := by
  obtain ⟨c, r, e, _, hc, _⟩ := dumpInt_head i
  have hne : ∀ d : Char, d ≠ '-' → isDigit d = false → c ≠ d := by
    intro d h1 h2
    rcases hc with rfl | hd
    · exact Ne.symm h1
    · exact digit_ne c d hd h2
  have h1 : c ≠ '"' := hne _ (by decide) (by decide)
  have h2 : c ≠ '{' := hne _ (by decide) (by decide)
  have h3 : c ≠ '[' := hne _ (by decide) (by decide)
  have hlit := pLiteral_dumpInt i rest
  have hnum := pNumber_dumpInt i rest h hl
  rw [e] at hlit hnum ⊢
  simp only [pValue, List.cons_append, h1, h2, h3, if_false]
  simp only [List.cons_append] at hlit hnum
  rw [hlit, hnum]

end Poor.Json

namespace Poor.Json
open Poor
open Poor.HeaderValue (isDigit natOfDigits)

theorem tailText_append (k : CpStr) (X rest : Str) : tailText k X ++ rest = tailText k (X ++ rest) := by
  simp [tailText]

theorem startsWith_self (p T : Str) : startsWith (p ++ T) p = some T := by
  unfold startsWith
  have : p.isPrefixOf (p ++ T) = true := by
    induction p with
    | nil => simp [List.isPrefixOf]
    | cons a p ih => simp [List.isPrefixOf, ih]
  simp [this]

theorem pLiteral_null (rest : Str) : pLiteral ('n' :: 'u' :: 'l' :: 'l' :: rest) = some (.null, rest) := by
  unfold pLiteral
  rw [show "null".toList = ['n', 'u', 'l', 'l'] from rfl]
  rw [show 'n' :: 'u' :: 'l' :: 'l' :: rest = ['n', 'u', 'l', 'l'] ++ rest from rfl, startsWith_self]

theorem pLiteral_true (rest : Str) : pLiteral ('t' :: 'r' :: 'u' :: 'e' :: rest) = some (.bool true, rest) := by
  unfold pLiteral
  rw [show "null".toList = 'n' :: ['u', 'l', 'l'] from rfl, startsWith_cons_ne _ _ _ _ (by decide)]
  rw [show "true".toList = ['t', 'r', 'u', 'e'] from rfl]
  rw [show 't' :: 'r' :: 'u' :: 'e' :: rest = ['t', 'r', 'u', 'e'] ++ rest from rfl, startsWith_self]

theorem pLiteral_false (rest : Str) : pLiteral ('f' :: 'a' :: 'l' :: 's' :: 'e' :: rest) = some (.bool false, rest) := by
  unfold pLiteral
  rw [show "null".toList = 'n' :: ['u', 'l', 'l'] from rfl, startsWith_cons_ne _ _ _ _ (by decide)]
  rw [show "true".toList = 't' :: ['r', 'u', 'e'] from rfl, startsWith_cons_ne _ _ _ _ (by decide)]
  rw [show "false".toList = ['f', 'a', 'l', 's', 'e'] from rfl]
  rw [show 'f' :: 'a' :: 'l' :: 's' :: 'e' :: rest = ['f', 'a', 'l', 's', 'e'] ++ rest from rfl, startsWith_self]

/-- the three statements proved together by the recursor of the nested type -/
theorem roundtrip_value (v : J) : JOk v → ∀ f rest, (dump v).length ≤ f → SepOK rest →
    pValue f (dump v ++ rest) = .ok v rest := by
  refine J.rec
    (motive_1 := fun v => JOk v → ∀ f rest, (dump v).length ≤ f → SepOK rest → pValue f (dump v ++ rest) = .ok v rest)
    (motive_2 := fun l => l ≠ [] → JOks l → ∀ f rest acc, (dumpElems l).length ≤ f →
      pElems f (dumpElems l ++ rest) acc = .ok (.arr (acc.reverse ++ l)) rest)
    (motive_3 := fun l => l ≠ [] → MOk l → ∀ f rest acc, ((acc ++ l).map Prod.fst).Nodup → (dumpPairs l).length ≤ f →
      pMembers f (dumpPairs l ++ rest) acc = .ok (.obj (acc ++ l)) rest)
    (motive_4 := fun kv => JOk kv.2 → ∀ f rest, (dump kv.2).length ≤ f → SepOK rest →
      pValue f (dump kv.2 ++ rest) = .ok kv.2 rest)
    ?null ?bool ?int ?float ?str ?arr ?obj ?nil2 ?cons2 ?nil3 ?cons3 ?pair v
  case null =>
    intro _ f rest hf _
    cases f with
    | zero => simp [dump] at hf
    | succ f =>
      simp only [dump, List.cons_append, List.nil_append, pValue]
      rw [if_neg (by decide), if_neg (by decide), if_neg (by decide), pLiteral_null]
  case bool =>
    intro b _ f rest hf _
    cases f with
    | zero => cases b <;> simp [dump] at hf
    | succ f =>
      cases b
      · simp only [dump, List.cons_append, List.nil_append, pValue]
        rw [if_neg (by decide), if_neg (by decide), if_neg (by decide), pLiteral_false]
      · simp only [dump, List.cons_append, List.nil_append, pValue]
        rw [if_neg (by decide), if_neg (by decide), if_neg (by decide), pLiteral_true]
  case int =>
    intro i hok f rest hf hs
    cases f with
    | zero => have := dump_length_pos (.int i); omega
    | succ f => simp only [dump]; exact pValue_int f i rest hs hok
  case float => intro h; exact absurd h (by simp [JOk])
  case str =>
    intro s hok f rest hf _
    cases f with
    | zero => have := dump_length_pos (.str s); omega
    | succ f =>
      simp only [dump, dumpStr_eq, pValue, if_true]
      rw [scanStr_tail s [] rest hok]; simp
  case arr =>
    intro l ih hok f rest hf _
    cases f with
    | zero => have := dump_length_pos (.arr l); omega
    | succ f =>
      cases l with
      | nil =>
        simp only [dump, List.cons_append, List.nil_append, pValue]
        rw [if_neg (by decide), if_neg (by decide), if_pos trivial]
        simp [skipWs, List.dropWhile, isWs]
      | cons x xs =>
        have hlen : (dumpElems (x :: xs)).length ≤ f := by
          simp only [dump, List.length_cons] at hf; simp only [dumpElems]; omega
        have := ih (by simp) hok f rest [] hlen
        simp only [dump, List.cons_append, pValue]
        rw [if_neg (by decide), if_neg (by decide), if_pos trivial]
        rw [List.append_assoc, skipWs_dump]
        obtain ⟨c, r, e, hc⟩ := dump_head x
        simp only [dumpElems, List.append_assoc] at this
        rw [e] at this ⊢
        simp only [List.cons_append] at this ⊢
        split
        · rename_i heq; simp only [List.cons.injEq] at heq; exact absurd heq.1 hc.2.1
        · simpa using this
  case obj =>
    intro l ih hok f rest hf _
    cases f with
    | zero => have := dump_length_pos (.obj l); omega
    | succ f =>
      cases l with
      | nil =>
        simp only [dump, List.cons_append, List.nil_append, pValue]
        rw [if_neg (by decide), if_pos trivial]
        simp [skipWs, List.dropWhile, isWs]
      | cons kv r =>
        obtain ⟨k, v⟩ := kv
        have hlen : (dumpPairs ((k, v) :: r)).length ≤ f := by
          simp only [dump, List.length_cons] at hf; simp only [dumpPairs]; omega
        have := ih (by simp) hok.1 f rest [] (by simpa using hok.2) hlen
        simp only [dump, List.cons_append, pValue]
        rw [if_neg (by decide), if_pos trivial]
        simp only [dumpPairs, List.append_assoc, dumpStr_eq, List.cons_append] at this
        simp only [List.append_assoc, dumpStr_eq, List.cons_append]
        have hws : ∀ T, skipWs ('"' :: T) = '"' :: T := by intro T; simp [skipWs, List.dropWhile, isWs]
        rw [hws]
        simpa using this
  case nil2 => intro h; exact absurd rfl h
  case cons2 =>
    intro x xs ihx ihxs _ hok f rest acc hf
    cases f with
    | zero =>
      have := dump_length_pos x
      simp only [dumpElems, List.length_append] at hf; omega
    | succ f =>
      have h1 : (dump x).length ≤ f := by
        have := dumpTail_length_pos xs
        simp only [dumpElems, List.length_append] at hf; omega
      simp only [dumpElems, List.append_assoc, pElems]
      rw [ihx hok.1 f (dumpTail xs ++ rest) h1 (sepOK_dumpTail xs rest)]
      cases xs with
      | nil =>
        simp only [dumpTail, List.cons_append, List.nil_append]
        have : skipWs (']' :: rest) = ']' :: rest := by simp [skipWs, List.dropWhile, isWs]
        rw [this]
        simp
      | cons x' xs' =>
        have h2 : (dumpElems (x' :: xs')).length ≤ f := by
          have := dump_length_pos x
          simp only [dumpElems, dumpTail, List.length_append, List.length_cons] at hf ⊢; omega
        have := ihxs (by simp) hok.2 f rest (x :: acc) h2
        simp only [dumpTail, List.cons_append]
        have hw : ∀ T, skipWs (',' :: T) = ',' :: T := by intro T; simp [skipWs, List.dropWhile, isWs]
        rw [hw]
        simp only [if_neg (show (',' : Char) ≠ ']' by decide), if_true]
        rw [List.append_assoc, skipWs_blank_dump]
        simp only [dumpElems, List.append_assoc] at this
        rw [this]; simp
  case nil3 => intro h; exact absurd rfl h
  case cons3 =>
    intro kv r ihkv ihr _ hok f rest acc hnd hf
    obtain ⟨k, v⟩ := kv
    cases f with
    | zero => simp only [dumpPairs, dumpStr, List.length_append, List.length_cons] at hf; omega
    | succ f =>
      have h1 : (dump v).length ≤ f := by
        simp only [dumpPairs, dumpStr, List.length_append, List.length_cons] at hf; omega
      have hk : k ∉ acc.map Prod.fst := by
        simp only [List.map_append, List.map_cons] at hnd
        have := (List.nodup_append.mp hnd).2.2
        intro hmem
        exact this k hmem k List.mem_cons_self rfl
      simp only [dumpPairs, List.append_assoc, dumpStr_eq, List.cons_append, tailText_append, pMembers]
      rw [scanStr_tail k [] _ hok.1]
      simp only [List.reverse_nil, List.nil_append]
      have hw : ∀ T, skipWs (':' :: T) = ':' :: T := by intro T; simp [skipWs, List.dropWhile, isWs]
      rw [hw]
      simp only []
      rw [skipWs_blank_dump, ihkv hok.2.1 f (dumpMembers r ++ rest) h1 (sepOK_dumpMembers r rest)]
      simp only []
      rw [dset_fresh acc k v hk]
      cases r with
      | nil =>
        simp only [dumpMembers, List.cons_append, List.nil_append]
        have : skipWs ('}' :: rest) = '}' :: rest := by simp [skipWs, List.dropWhile, isWs]
        rw [this]
        simp
      | cons kv' r' =>
        obtain ⟨k', v'⟩ := kv'
        have h2 : (dumpPairs ((k', v') :: r')).length ≤ f := by
          simp only [dumpPairs, dumpMembers, dumpStr, List.length_append, List.length_cons] at hf ⊢; omega
        have := ihr (by simp) hok.2.2 f rest (acc ++ [(k, v)]) (by simpa using hnd) h2
        simp only [dumpMembers, List.cons_append]
        have hw2 : ∀ T, skipWs (',' :: T) = ',' :: T := by intro T; simp [skipWs, List.dropWhile, isWs]
        rw [hw2]
        simp only [if_neg (show (',' : Char) ≠ '}' by decide), if_true]
        have hw3 : ∀ T, skipWs (' ' :: '"' :: T) = '"' :: T := by intro T; simp [skipWs, List.dropWhile, isWs]
        simp only [dumpPairs, List.append_assoc, dumpStr_eq, List.cons_append, tailText_append] at this
        simp only [List.append_assoc, dumpStr_eq, List.cons_append, tailText_append]
        rw [hw3, this]; simp
  case pair => intro k v ih; exact ih
end Poor.Json

namespace Poor.Json
open Poor

/-! ### the text `dump` writes is ASCII (`ensure_ascii=True`) -/

theorem hexd_ascii : ∀ d, d < 16 → (hexd d).toNat < 128 := by decide

theorem escChar_ascii (c : Nat) : ∀ x ∈ escChar c, x.toNat < 128 := by
  have hx : ∀ n, ∀ x ∈ uesc n, x.toNat < 128 := by
    intro n x hx
    simp only [uesc, hex4, List.mem_cons, List.not_mem_nil, or_false] at hx
    rcases hx with rfl | rfl | rfl | rfl | rfl | rfl
    · decide
    · decide
    all_goals exact hexd_ascii _ (Nat.mod_lt _ (by decide))
  intro x hmem
  unfold escChar at hmem
  split at hmem; · simp at hmem; rcases hmem with rfl | rfl <;> decide
  split at hmem; · simp at hmem; rcases hmem with rfl | rfl <;> decide
  split at hmem; · simp at hmem; rcases hmem with rfl | rfl <;> decide
  split at hmem; · simp at hmem; rcases hmem with rfl | rfl <;> decide
  split at hmem; · simp at hmem; rcases hmem with rfl | rfl <;> decide
  split at hmem; · simp at hmem; rcases hmem with rfl | rfl <;> decide
  split at hmem; · simp at hmem; rcases hmem with rfl | rfl <;> decide
  split at hmem
  · rename_i h8
    simp only [List.mem_cons, List.not_mem_nil, or_false] at hmem
    rw [hmem, ofNat_toNat_small c h8.2]; omega
  split at hmem
  · exact hx _ x hmem
  · rcases List.mem_append.mp hmem with h | h <;> exact hx _ x h

theorem dumpStr_ascii (s : CpStr) : ∀ x ∈ dumpStr s, x.toNat < 128 := by
  intro x hx
  simp only [dumpStr, List.mem_cons, List.mem_append, List.mem_flatMap, List.not_mem_nil, or_false] at hx
  rcases hx with rfl | ⟨c, _, hc⟩ | rfl
  · decide
  · exact escChar_ascii c x hc
  · decide

theorem digit_ascii (c : Char) (h : Poor.HeaderValue.isDigit c = true) : c.toNat < 128 := by
  simp only [Poor.HeaderValue.isDigit, Bool.and_eq_true, decide_eq_true_eq] at h
  have := h.2
  rw [Char.le_def] at this
  simp only [UInt32.le_iff_toNat_le] at this
  have e : ('9' : Char).val.toNat = 57 := by decide
  rw [e] at this
  show c.val.toNat < 128
  omega

theorem dumpInt_ascii (i : Int) : ∀ x ∈ dumpInt i, x.toNat < 128 := by
  intro x hx
  unfold dumpInt at hx
  split at hx
  · rcases List.mem_cons.mp hx with rfl | h
    · decide
    · exact digit_ascii x (digitsOf_isDigit _ x h)
  · exact digit_ascii x (digitsOf_isDigit _ x hx)

/-- `ensure_ascii=True`: every character `dump` writes is ASCII, whatever the value holds -/
theorem dump_ascii (v : J) : ∀ x ∈ dump v, x.toNat < 128 := by
  refine J.rec
    (motive_1 := fun v => ∀ x ∈ dump v, x.toNat < 128)
    (motive_2 := fun l => ∀ x ∈ dumpTail l, x.toNat < 128)
    (motive_3 := fun l => ∀ x ∈ dumpMembers l, x.toNat < 128)
    (motive_4 := fun kv => ∀ x ∈ dump kv.2, x.toNat < 128)
    ?null ?bool ?int ?float ?str ?arr ?obj ?nil2 ?cons2 ?nil3 ?cons3 ?pair v
  case null => intro x hx; simp only [dump, List.mem_cons, List.not_mem_nil, or_false] at hx; rcases hx with rfl | rfl | rfl | rfl <;> decide
  case bool =>
    intro b x hx
    cases b <;> simp only [dump, List.mem_cons, List.not_mem_nil, or_false] at hx
    · rcases hx with rfl | rfl | rfl | rfl | rfl <;> decide
    · rcases hx with rfl | rfl | rfl | rfl <;> decide
  case int => intro i x hx; simp only [dump] at hx; exact dumpInt_ascii i x hx
  case float => intro x hx; simp only [dump, List.mem_cons, List.not_mem_nil, or_false] at hx; rcases hx with rfl | rfl | rfl <;> decide
  case str => intro s x hx; simp only [dump] at hx; exact dumpStr_ascii s x hx
  case arr =>
    intro l ih x hx
    cases l with
    | nil => simp only [dump, List.mem_cons, List.not_mem_nil, or_false] at hx; rcases hx with rfl | rfl <;> decide
    | cons y ys =>
      simp only [dump, List.mem_cons, List.mem_append] at hx
      rcases hx with rfl | h | h
      · decide
      · exact ih x (by simp only [dumpTail, List.mem_cons, List.mem_append]; exact Or.inr (Or.inr (Or.inl h)))
      · exact ih x (by simp only [dumpTail, List.mem_cons, List.mem_append]; exact Or.inr (Or.inr (Or.inr h)))
  case obj =>
    intro l ih x hx
    cases l with
    | nil => simp only [dump, List.mem_cons, List.not_mem_nil, or_false] at hx; rcases hx with rfl | rfl <;> decide
    | cons kv r =>
      obtain ⟨k, w⟩ := kv
      simp only [dump, List.mem_cons, List.mem_append] at hx
      rcases hx with rfl | h | rfl | rfl | h | h
      · decide
      · exact dumpStr_ascii k x h
      · decide
      · decide
      · exact ih x (by simp only [dumpMembers, List.mem_cons, List.mem_append]; exact Or.inr (Or.inr (Or.inr (Or.inr (Or.inr (Or.inl h))))))
      · exact ih x (by simp only [dumpMembers, List.mem_cons, List.mem_append]; exact Or.inr (Or.inr (Or.inr (Or.inr (Or.inr (Or.inr h))))))
  case nil2 => intro x hx; simp only [dumpTail, List.mem_cons, List.not_mem_nil, or_false] at hx; rw [hx]; decide
  case cons2 =>
    intro y ys ihy ihys x hx
    simp only [dumpTail, List.mem_cons, List.mem_append] at hx
    rcases hx with rfl | rfl | h | h
    · decide
    · decide
    · exact ihy x h
    · exact ihys x h
  case nil3 => intro x hx; simp only [dumpMembers, List.mem_cons, List.not_mem_nil, or_false] at hx; rw [hx]; decide
  case cons3 =>
    intro kv r ihkv ihr x hx
    obtain ⟨k, w⟩ := kv
    simp only [dumpMembers, List.mem_cons, List.mem_append] at hx
    rcases hx with rfl | rfl | h | rfl | rfl | h | h
    · decide
    · decide
    · exact dumpStr_ascii k x h
    · decide
    · decide
    · exact ihkv x h
    · exact ihr x h
  case pair => intro k w ih; exact ih

/-- **`json.loads(json.dumps(v)) == v`** for every well-formed value -/
theorem loads_dump (v : J) (h : JOk v) : loads (dump v) = some v := by
  unfold loads
  obtain ⟨c, r, e, hc⟩ := dump_head v
  have hbom : (dump v).head? ≠ some (Char.ofNat 0xFEFF) := by
    rw [e]
    simp only [List.head?_cons, ne_eq, Option.some.injEq]
    intro hb
    have := dump_ascii v c (by rw [e]; exact List.mem_cons_self)
    rw [hb] at this
    revert this; decide
  rw [if_neg hbom]
  have hs : skipWs (dump v) = dump v := by simpa using skipWs_dump v []
  rw [hs]
  have := roundtrip_value v h ((dump v).length + 1) [] (by simp) (by intro c r hcr; cases hcr)
  rw [List.append_nil] at this
  rw [this]
  simp [skipWs]

end Poor.Json
