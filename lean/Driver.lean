import PoorModel
open Poor

def dispatch (toks : List String) : String :=
  match toks with
  | "C06" :: rest => Poor.Drv.Range.handle rest
  | "C07" :: rest => Poor.Drv.Range.handle rest
  | "C09" :: rest => Poor.Drv.Reader.handle rest
  | "C16" :: rest => Poor.Drv.Token.handle rest
  | "C14" :: rest => Poor.Drv.Headers.handle rest
  | "C15" :: rest => Poor.Drv.Html.handleC15 rest
  | "C20" :: rest => Poor.Drv.Html.handleC20 rest
  | "C01" :: rest => Poor.Drv.Wsgi.handle rest
  | "C03" :: rest => Poor.Drv.Wsgi.handle rest
  | "C04" :: rest => Poor.Drv.Wsgi.handle rest
  | "C05" :: rest => Poor.Drv.Wsgi.handleC05 rest
  | "C02" :: rest => Poor.Drv.Route.handle rest
  | "C19" :: rest => Poor.Drv.Route.handle rest
  | "RE" :: rest => Poor.Drv.Route.handleRe rest
  | "JS" :: rest => Poor.Drv.Json.handle rest
  | "RL" :: rest => Poor.Drv.ReadAll.handle rest
  | "PW" :: rest => Poor.Drv.PwFile.handle rest
  | "C18" :: rest => Poor.Drv.HeaderValue.handle rest
  | "C13" :: rest => Poor.Drv.Session.handle rest
  | "C12" :: rest => Poor.Drv.Static.handle rest
  | "C10" :: rest => Poor.Drv.Query.handle rest
  | "C11" :: rest => Poor.Drv.Digest.handle rest
  | "C17" :: rest => Poor.Drv.Sched.handle rest
  | "C08" :: rest => Poor.Drv.Multipart.handle rest
  | _ => "bad-op"

partial def loop (h : IO.FS.Stream) (out : IO.FS.Stream) : IO Unit := do
  let line ← h.getLine
  if line.isEmpty then return ()
  let toks := (line.trimAscii.toString.splitOn " ").filter (· ≠ "")
  out.putStrLn (dispatch toks)
  loop h out

def main : IO Unit := do
  loop (← IO.getStdin) (← IO.getStdout)
