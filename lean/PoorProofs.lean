import PoorProofs.Props.C10
