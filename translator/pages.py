"""Page-template extraction from poorwsgi/results.py (Python ast -> Tpl).

A small symbolic evaluator for the string-building code of the built-in pages.  Values
are template fragments: lists of nodes
    ('lit', str) | ('hole', cls, source_text) | ('alt', a, b) | ('ifdebug', a, b) | ('star', a)
where a/b are fragments.  Everything the evaluator does not recognise becomes a raw,
tainted hole (fails closed: the Lean `decide` obligation then breaks).

Taint sources (from the properties' wording) are the explicit tables below.
"""
import ast
import re
from inspect import cleandoc

# --- taint tables ---------------------------------------------------------------------
# classes: tainted | token | trusted | diag | diagtainted
REQ_ATTR = {
    'method': 'token',
    'remote_host': 'trusted', 'remote_addr': 'trusted',
    'server_hostname': 'trusted', 'server_port': 'trusted', 'server_scheme': 'trusted',
    'port': 'trusted', 'scheme': 'trusted', 'server_protocol': 'trusted', 'protocol': 'trusted',
    'document_root': 'trusted', 'document_index': 'trusted', 'debug': 'trusted',
    'server_software': 'diag', 'uri_rule': 'diag', 'uri_handler': 'diag', 'error_handler': 'diag',
    'secret_key': 'diag',
    # everything else (uri, path, full_path, query, hostname, server_admin, referer,
    # user_agent, forwarded_*, headers, args, form, cookies, ...) is request-derived
}
TRUSTED_CALLS = {'human_methods_', 'strftime', 'time_to_http', 'hbytes', 'gmtime', 'getctime',
                 'getsize', 'len', 'getgid', 'getuid', 'getegid', 'geteuid'}
TRUSTED_ATTRS = {'__module__', '__name__', '__version__', '__date__', 'pattern'}
TRUSTED_NAMES = {'__version__', '__date__', 'version', 'HTTP_INTERNAL_SERVER_ERROR'}
DIAG_NAMES = {'handler', 'exc_type', 'exc_value', 'exc_traceback'}
DIAG_CALLS = {'exc_info', 'format_exception'}
FS_CALLS = {'listdir'}            # file-system names: tainted
# iteration sources: class per unpacked position
ITER = {
    'handlers_view': 'trusted',                 # routes, methods, handler callables (configuration)
    'app.filters.items': 'trusted',
    'zip': 'trusted',                           # zip(pre, post): hook callables
    'req.headers.items': ['trusted', 'tainted'],     # header names are server-normalised tokens
    'req.get_options().items': ['trusted', 'tainted'],
    'sorted': ['trusted', 'tainted'],           # sorted(environ.items()): keys server-side, values any
    'enumerate': ['trusted', None],             # index, element class of the argument
}
JOIN = {'tainted': 4, 'diagtainted': 5, 'token': 3, 'diag': 2, 'trusted': 1}


def join(a, b):
    if {a, b} == {'diag', 'tainted'} or {a, b} == {'diag', 'token'}:
        return 'diagtainted'
    return a if JOIN[a] >= JOIN[b] else b


RAW_CLS = {'tainted': 'rawTainted', 'token': 'token', 'trusted': 'trusted', 'diag': 'diagnostic',
           'diagtainted': 'rawTainted'}
ESC_CLS = {'tainted': 'escaped', 'token': 'escaped', 'trusted': 'trusted', 'diag': 'diagnostic',
           'diagtainted': 'diagEscaped'}

FMT = re.compile(r'%(?:\((\w+)\))?[#0\- +]*(\*|\d+)?(?:\.(\*|\d+))?[hlL]?([diouxXeEfFgGcrsa%])')


class Unsupported(Exception):
    pass


def src(node):
    try:
        return ast.unparse(node)
    except Exception:
        return type(node).__name__


def dotted(node):
    """a.b.c / a.b().c -> 'a.b.c' text used for table lookups"""
    if isinstance(node, ast.Name):
        return node.id
    if isinstance(node, ast.Attribute):
        return dotted(node.value) + '.' + node.attr
    if isinstance(node, ast.Call):
        return dotted(node.func) + '()'
    return '?'


class Env:
    def __init__(self):
        self.frag = {}     # variable -> fragment (string-valued variables)
        self.cls = {}      # variable -> taint class of its raw value
        self.lists = set() # variables that collect the pieces of a page in a list (joined with '' in the end)
        self.iters = {}    # variable -> classes of the items it yields (an iterable handed to a helper)

    def copy(self):
        e = Env()
        e.frag = dict(self.frag)
        e.cls = dict(self.cls)
        e.lists = set(self.lists)
        e.iters = dict(self.iters)
        return e


class TupleRet(list):
    """what a helper called as `a, b = helper(...)` returns: one fragment per position"""


class PageEval:
    def __init__(self, funcs=None, consts=None):
        self.notes = []
        self.funcs = funcs or {}      # module-level helper functions that may build parts of a page
        self.consts = consts or {}    # module-level names assigned exactly once (and never declared global): their value
        self.depth = 0
        self.cdepth = 0
        self.want_tuple = {}          # helper nesting depth -> number of positions the caller unpacks

    def const(self, name, what):
        """fragment / class of a module-level constant, evaluated in an empty environment"""
        if self.cdepth >= 6:
            raise Unsupported('constant nesting at ' + name)
        self.cdepth += 1
        try:
            return what(self.consts[name], Env())
        finally:
            self.cdepth -= 1

    def cond_ret(self, test, a, b):
        if isinstance(a, TupleRet) or isinstance(b, TupleRet):
            if not (isinstance(a, TupleRet) and isinstance(b, TupleRet) and len(a) == len(b)):
                raise Unsupported('returns of different shapes')
            return TupleRet([self.cond(test, x, y)] for x, y in zip(a, b))
        return [self.cond(test, a, b)]

    def inline(self, fn, call, env, positions=None):
        """a call of a module-level helper that returns page text: evaluate its body with the parameters bound
        to the fragments and taint classes of the arguments (fails closed: anything unusual raises Unsupported)"""
        if self.depth >= 4:
            raise Unsupported('helper nesting in ' + fn.name)
        if fn.args.vararg or fn.args.kwarg or fn.args.kwonlyargs or fn.args.posonlyargs:
            raise Unsupported('helper signature of ' + fn.name)
        params = [a.arg for a in fn.args.args]
        bound = dict(zip(params, call.args))
        if len(call.args) > len(params):
            raise Unsupported('helper arity of ' + fn.name)
        for kw in call.keywords:
            if kw.arg is None or kw.arg not in params or kw.arg in bound:
                raise Unsupported('helper keywords of ' + fn.name)
            bound[kw.arg] = kw.value
        defaults = dict(zip(params[len(params) - len(fn.args.defaults):], fn.args.defaults))
        e2 = Env()
        for prm in params:
            if prm in bound:
                arg = bound[prm]
                e2.cls[prm] = self.classify(arg, env)
                if isinstance(arg, (ast.Call, ast.GeneratorExp, ast.Tuple, ast.List)) or \
                        (isinstance(arg, ast.Name) and arg.id in env.iters):
                    spec = self.iter_classes(arg, env)
                    if isinstance(spec, list):
                        e2.iters[prm] = spec          # an iterable of tuples handed on: its items keep their classes
                if not (isinstance(arg, ast.Name) and arg.id in ('req', 'app') and prm == arg.id):
                    e2.frag[prm] = self.frag(arg, env)
            elif prm in defaults and isinstance(defaults[prm], ast.Constant):
                e2.cls[prm] = 'trusted'
                e2.frag[prm] = self.frag(defaults[prm], env)
            elif prm in defaults and isinstance(defaults[prm], ast.Name) and defaults[prm].id in self.consts:
                e2.cls[prm] = self.const(defaults[prm].id, self.classify)
                e2.frag[prm] = self.const(defaults[prm].id, self.frag)
            else:
                raise Unsupported('helper argument %s of %s' % (prm, fn.name))
        self.depth += 1
        if positions:
            self.want_tuple[self.depth] = positions
        try:
            ret = self.run(fn.body, e2)
        finally:
            self.want_tuple.pop(self.depth, None)
            self.depth -= 1
        if ret is None:
            raise Unsupported('helper %s returns nothing' % fn.name)
        if bool(positions) != isinstance(ret, TupleRet):
            raise Unsupported('helper %s: shape of the returned value' % fn.name)
        return ret

    # ---- classification of a raw (unescaped) expression -------------------------------
    def classify(self, node, env):
        if isinstance(node, ast.Constant):
            return 'trusted'
        if isinstance(node, ast.Name):
            if node.id in TRUSTED_NAMES:
                return 'trusted'
            if node.id in DIAG_NAMES:
                return 'diag'
            if node.id in env.cls:
                return env.cls[node.id]
            if node.id in env.frag:
                return self.frag_class(env.frag[node.id])
            if node.id in self.consts and node.id not in env.cls:
                return self.const(node.id, self.classify)
            return 'tainted'
        if isinstance(node, ast.Attribute):
            if node.attr in TRUSTED_ATTRS:
                return 'trusted'
            if isinstance(node.value, ast.Name) and node.value.id == 'req':
                return REQ_ATTR.get(node.attr, 'tainted')
            return self.classify(node.value, env)
        if isinstance(node, ast.Subscript):
            base = self.classify(node.value, env)
            return base
        if isinstance(node, ast.Call):
            name = dotted(node.func)
            last = name.split('.')[-1]
            if last in TRUSTED_CALLS:
                return 'trusted'
            if last in DIAG_CALLS:
                return 'diagtainted'
            if last in FS_CALLS:
                return 'tainted'
            if last in ('str', 'repr', 'tuple', 'list', 'sorted') and node.args:
                return self.classify(node.args[0], env)
            if isinstance(node.func, ast.Attribute) and last == 'join' and node.args:
                return join(self.classify(node.func.value, env), self.classify(node.args[0], env))
            if isinstance(node.func, ast.Attribute) and last in (
                    'rstrip', 'lstrip', 'strip', 'lower', 'upper', 'copy', 'items', 'keys', 'values',
                    'split', 'get'):
                return self.classify(node.func.value, env)
            if last == 'guess_type':
                return 'trusted'
            if name == 'getattr' and len(node.args) in (2, 3) and not node.keywords \
                    and isinstance(node.args[1], ast.Constant) and isinstance(node.args[1].value, str):
                # getattr(x, 'name'[, default]) is x.name (or the default)
                cls = self.classify(ast.Attribute(value=node.args[0], attr=node.args[1].value, ctx=ast.Load()), env)
                return join(cls, self.classify(node.args[2], env)) if len(node.args) == 3 else cls
            return 'tainted'
        if isinstance(node, (ast.BinOp, ast.BoolOp, ast.IfExp, ast.Tuple, ast.List, ast.JoinedStr,
                             ast.FormattedValue, ast.Compare, ast.Dict)):
            cls = 'trusted'
            for ch in ast.iter_child_nodes(node):
                if isinstance(ch, (ast.operator, ast.boolop, ast.cmpop, ast.expr_context)):
                    continue
                cls = join(cls, self.classify(ch, env))
            return cls
        return 'tainted'

    def frag_class(self, frag):
        cls = 'trusted'
        back = {'rawTainted': 'tainted', 'escaped': 'tainted', 'token': 'token', 'trusted': 'trusted',
                'diagnostic': 'diag', 'diagEscaped': 'diagtainted'}
        for n in frag:
            if n[0] == 'hole':
                cls = join(cls, back[n[1]])
            elif n[0] in ('alt', 'ifdebug'):
                cls = join(cls, join(self.frag_class(n[1]), self.frag_class(n[2])))
            elif n[0] == 'star':
                cls = join(cls, self.frag_class(n[1]))
        return cls

    # ---- expression -> fragment ---------------------------------------------------------
    def frag(self, node, env):
        if isinstance(node, ast.Constant):
            if isinstance(node.value, str):
                return [('lit', node.value)]
            return [('lit', str(node.value))]
        if isinstance(node, ast.Name) and node.id in env.frag:
            return list(env.frag[node.id])
        if isinstance(node, ast.Name) and node.id in self.consts and node.id not in env.cls:
            return self.const(node.id, self.frag)
        if isinstance(node, (ast.Tuple, ast.List)) and False:
            pass
        if isinstance(node, ast.BinOp) and isinstance(node.op, ast.Add):
            return self.frag(node.left, env) + self.frag(node.right, env)
        if isinstance(node, ast.BinOp) and isinstance(node.op, ast.Mult):
            if isinstance(node.left, ast.Constant) and isinstance(node.right, ast.Constant):
                return [('lit', str(node.left.value * node.right.value))]
        if isinstance(node, ast.BinOp) and isinstance(node.op, ast.Mod):
            return self.fmt(node, env)
        if isinstance(node, ast.JoinedStr):
            out = []
            for v in node.values:
                if isinstance(v, ast.Constant):
                    out.append(('lit', v.value))
                else:
                    if v.conversion not in (-1, 115) or v.format_spec is not None:      # `!s` is str(): transparent
                        out.append(('hole', 'rawTainted', src(v)))
                    else:
                        out += self.frag(v.value, env)
            return out
        if isinstance(node, ast.IfExp):
            return [self.cond(node.test, self.frag(node.body, env), self.frag(node.orelse, env))]
        if isinstance(node, ast.Call):
            name = dotted(node.func)
            if name == 'html_escape' and len(node.args) == 1:
                return [('hole', ESC_CLS[self.classify(node.args[0], env)], src(node))]
            if name == 'cleandoc' and isinstance(node.args[0], ast.Constant):
                return [('lit', cleandoc(node.args[0].value))]
            if name == 'str' and len(node.args) == 1:
                return self.frag(node.args[0], env)
            # `text.encode('utf-8'[, errors])` with an error handler that replaces what cannot be encoded by inert
            # ASCII ('?', '\\udcff', '&#56575;', nothing): the text itself.  surrogateescape / surrogatepass are not
            # in the list: they turn a code point into an arbitrary byte, '<' included.
            if isinstance(node.func, ast.Attribute) and node.func.attr == 'encode' and 1 <= len(node.args) <= 2 \
                    and not node.keywords and all(isinstance(a, ast.Constant) and isinstance(a.value, str) for a in node.args) \
                    and node.args[0].value.lower().replace('_', '-') in ('utf-8', 'utf8') \
                    and (len(node.args) == 1 or node.args[1].value in ('strict', 'backslashreplace', 'replace', 'ignore',
                                                                      'xmlcharrefreplace', 'namereplace')):
                return self.frag(node.func.value, env)
            if isinstance(node.func, ast.Name) and name in self.funcs and name not in PAGES:
                return self.inline(self.funcs[name], node, env)
            if isinstance(node.func, ast.Attribute) and node.func.attr == 'join' \
                    and isinstance(node.func.value, ast.Constant) and len(node.args) == 1:
                return self.join(node.func.value.value, node.args[0], env)
            if isinstance(node.func, ast.Attribute) and node.func.attr == 'format':
                got = self.str_format(node, env)
                if got is not None:
                    return got
        return [('hole', RAW_CLS[self.classify(node, env)], src(node))]

    def cond(self, test, a, b):
        if src(test) == 'req.debug':
            return ('ifdebug', a, b)
        if isinstance(test, ast.BoolOp) and isinstance(test.op, ast.And) and src(test.values[0]) == 'req.debug':
            # `req.debug and X`: with debug off only b; with debug on either
            return ('ifdebug', [('alt', a, b)], b)
        return ('alt', a, b)

    def joined_later(self, name, body):
        """is the list variable used only through append/extend and ''.join(name) in this body (fails closed otherwise)"""
        for st in body:
            for n in ast.walk(st):
                if isinstance(n, ast.Name) and n.id == name and isinstance(n.ctx, ast.Load):
                    pass
        uses = []
        for st in body:
            for n in ast.walk(st):
                if isinstance(n, ast.Call) and isinstance(n.func, ast.Attribute):
                    if isinstance(n.func.value, ast.Name) and n.func.value.id == name:
                        uses.append(n.func.attr)
                    if n.func.attr == 'join' and isinstance(n.func.value, ast.Constant) and n.func.value.value == '' \
                            and len(n.args) == 1 and isinstance(n.args[0], ast.Name) and n.args[0].id == name:
                        uses.append('joined')
        loads = sum(1 for st in body for n in ast.walk(st)
                    if isinstance(n, ast.Name) and n.id == name and isinstance(n.ctx, ast.Load))
        return 'joined' in uses and all(u in ('append', 'extend', 'joined') for u in uses) and loads == len(uses)

    def join(self, sep, arg, env):
        gen = arg
        if isinstance(gen, ast.Name) and gen.id in env.lists and sep == '':
            return list(env.frag[gen.id])
        if isinstance(gen, ast.Call) and dotted(gen.func) in ('tuple', 'list') and gen.args:
            gen = gen.args[0]
        if isinstance(gen, (ast.Tuple, ast.List)) and not any(isinstance(e, ast.Starred) for e in gen.elts):
            # "sep".join((a, b, c)) with the items written out
            out = []
            for i, e in enumerate(gen.elts):
                if i:
                    out.append(('lit', sep))
                out += self.frag(e, env)
            return out
        if not isinstance(gen, (ast.GeneratorExp, ast.ListComp)) or len(gen.generators) != 1:
            return [('hole', RAW_CLS[self.classify(arg, env)], src(arg))]
        comp = gen.generators[0]
        e2 = env.copy()
        self.bind_loop(comp.target, comp.iter, e2)
        elt = self.frag(gen.elt, e2)
        if comp.ifs:
            elt = [('alt', elt, [])]
        # "sep".join(e1..en) = '' | e (sep e)*
        return [('alt', [], elt + [('star', [('lit', sep)] + elt)])]

    def str_format(self, node, env):
        """`TEMPLATE.format(...)` for a template that is literal text: `{name}`, `{}`, `{0}`, with `!s` / numeric specs.
        None when the form is not recognised (the caller then leaves a hole of the expression's class)."""
        tpl = self.frag(node.func.value, env)
        if not tpl or not all(n[0] == 'lit' for n in tpl):
            return None
        text = ''.join(n[1] for n in tpl)
        kws = {kw.arg: kw.value for kw in node.keywords if kw.arg}
        if any(kw.arg is None for kw in node.keywords):
            return None
        pos, star = [], None
        for a in node.args:
            if isinstance(a, ast.Starred):
                if star is not None or pos:
                    return None
                star = a.value
            else:
                pos.append(a)
        out, i, auto = [], 0, 0
        for m in re.finditer(r'\{\{|\}\}|\{([^{}!:]*)(![sr])?(:[^{}]*)?\}|[{}]', text):
            if m.start() > i:
                out.append(('lit', text[i:m.start()]))
            i = m.end()
            tok = m.group(0)
            if tok in ('{{', '}}'):
                out.append(('lit', tok[0]))
                continue
            if tok in ('{', '}'):
                return None
            field, conv, spec = m.group(1), m.group(2), m.group(3)
            if conv == '!r':
                return None
            numeric = bool(spec) and re.fullmatch(r':[<>^+\-0-9.,]*[dfeEgGxXob%]', spec) is not None
            if spec and not numeric and spec != ':':
                return None
            if field == '' or field.isdigit():
                idx = auto if field == '' else int(field)
                auto += 1
                if star is not None:
                    cls = self.classify(star, env)
                    out.append(('hole', 'trusted' if numeric else RAW_CLS[cls], '{%s} of %s' % (idx, src(star))))
                    continue
                if idx >= len(pos):
                    return None
                arg = pos[idx]
            elif field in kws:
                arg = kws[field]
            else:
                return None
            if numeric:
                out.append(('hole', 'trusted', 'format ' + spec + ' ' + src(arg)))
            else:
                out += self.frag(arg, env)
        if i < len(text):
            out.append(('lit', text[i:]))
        return out

    def fmt(self, node, env):
        left = self.frag(node.left, env)
        if not all(n[0] == 'lit' for n in left):
            return [('hole', RAW_CLS[self.classify(node, env)], src(node))]
        fmtstr = ''.join(n[1] for n in left)
        args = list(node.right.elts) if isinstance(node.right, ast.Tuple) else [node.right]
        named = None
        if isinstance(node.right, ast.Dict):
            # `TEMPLATE % {'name': value, ...}` with literal keys: `%(name)s` takes the value of that key
            if not all(isinstance(k, ast.Constant) and isinstance(k.value, str) for k in node.right.keys):
                raise Unsupported('format mapping in ' + src(node))
            named = {k.value: v for k, v in zip(node.right.keys, node.right.values)}
        out, pos, i = [], 0, 0
        for m in FMT.finditer(fmtstr):
            if m.start() > pos:
                out.append(('lit', fmtstr[pos:m.start()]))
            pos = m.end()
            conv = m.group(4)
            if conv == '%':
                out.append(('lit', '%'))
                continue
            if m.group(2) == '*' or m.group(3) == '*' or bool(m.group(1)) != (named is not None):
                raise Unsupported('format spec ' + m.group(0))
            if named is not None:
                if m.group(1) not in named:
                    raise Unsupported('format key ' + m.group(0))
                a = named[m.group(1)]
                if conv in 'diouxXeEfFgG':
                    out.append(('hole', 'trusted', '%' + conv + ' ' + src(a)))
                elif conv == 's':
                    out += self.frag(a, env)
                else:
                    out.append(('hole', RAW_CLS[self.classify(a, env)], src(a)))
                continue
            if i >= len(args):
                if len(args) != 1:
                    raise Unsupported('format arity in ' + src(node))
                # one tuple-valued argument feeding several conversions, e.g. "%.1f%s" % hbytes(x)
                i += 1
                if conv in 'diouxXeEfFgG':
                    out.append(('hole', 'trusted', '%' + conv + ' ' + src(args[0])))
                else:
                    out.append(('hole', RAW_CLS[self.classify(args[0], env)], src(args[0])))
                continue
            a = args[i]
            i += 1
            if conv in 'diouxXeEfFgG':
                out.append(('hole', 'trusted', '%' + conv + ' ' + src(a)))     # numeric conversion: inert
            elif conv == 's':
                out += self.frag(a, env)
            else:
                out.append(('hole', RAW_CLS[self.classify(a, env)], src(a)))
        if named is not None:
            args = []
        if i != len(args):
            # a tuple-valued single argument such as hbytes(...) feeding several conversions
            if not (len(args) == 1 and i > 1):
                raise Unsupported('format arity in ' + src(node))
        if pos < len(fmtstr):
            out.append(('lit', fmtstr[pos:]))
        return out

    # ---- loop variable binding --------------------------------------------------------------
    def iter_classes(self, it, env):
        if isinstance(it, ast.Name) and it.id in env.iters:
            return env.iters[it.id]
        if isinstance(it, ast.GeneratorExp) and len(it.generators) == 1 and not it.generators[0].ifs:
            # (a, f(b)) for a, b in X: the classes of the tuple's items under the loop binding
            e2 = env.copy()
            self.bind_loop(it.generators[0].target, it.generators[0].iter, e2)
            if isinstance(it.elt, ast.Tuple):
                return [self.classify(e, e2) for e in it.elt.elts]
            return self.classify(it.elt, e2)
        name = dotted(it.func) if isinstance(it, ast.Call) else None
        if name is not None:
            key = name[:-2] if name.endswith('()') else name
            for k in (key, key.split('.')[-1]):
                if k in ITER:
                    spec = ITER[k]
                    if isinstance(spec, list):
                        return [c if c is not None else self.classify(it.args[0], env) for c in spec]
                    return spec
        if isinstance(it, (ast.Tuple, ast.List)) and it.elts and all(isinstance(e, ast.Tuple) for e in it.elts):
            n = len(it.elts[0].elts)
            return [self.fold(self.classify(e.elts[i], env) for e in it.elts) for i in range(n)]
        return self.classify(it, env)

    @staticmethod
    def fold(classes):
        cls = 'trusted'
        for c in classes:
            cls = join(cls, c)
        return cls

    def bind_loop(self, target, it, env):
        spec = self.iter_classes(it, env)
        targets = list(target.elts) if isinstance(target, ast.Tuple) else [target]
        for i, t in enumerate(targets):
            cls = spec[i] if isinstance(spec, list) and i < len(spec) else (spec if isinstance(spec, str) else 'tainted')
            for nm in ast.walk(t):
                if isinstance(nm, ast.Name):
                    env.cls[nm.id] = cls
                    env.frag.pop(nm.id, None)

    # ---- statements ---------------------------------------------------------------------------
    def run(self, body, env):
        """returns the returned fragment, or None"""
        ret = None
        for st in body:
            if isinstance(st, ast.Assign):
              for tgt in st.targets:
                if isinstance(tgt, ast.Name):
                    if isinstance(st.value, ast.List) and not any(isinstance(e, ast.Starred) for e in st.value.elts) \
                            and self.joined_later(tgt.id, body):
                        # `parts = [a, b]` ... `parts.append(c)` ... `''.join(parts)`: the pieces in order
                        fr, cls = [], 'trusted'
                        for e in st.value.elts:
                            fr += self.frag(e, env)
                            cls = join(cls, self.classify(e, env))
                        env.frag[tgt.id], env.cls[tgt.id] = fr, cls
                        env.lists.add(tgt.id)
                    elif isinstance(st.value, ast.Call) and dotted(st.value.func) == 'Response':
                        env.frag[tgt.id] = self.response_arg(st.value, env)
                        env.cls[tgt.id] = 'trusted'
                    else:
                        env.cls[tgt.id] = self.classify(st.value, env)
                        env.frag[tgt.id] = self.frag(st.value, env)
                elif isinstance(tgt, ast.Tuple) and isinstance(st.value, ast.Call) and isinstance(st.value.func, ast.Name) \
                        and st.value.func.id in self.funcs and st.value.func.id not in PAGES \
                        and st.value.func.id not in NOT_HELPERS and all(isinstance(t, ast.Name) for t in tgt.elts):
                    # `a, b = helper(...)`: each name gets what the helper returns at its position
                    got = self.inline(self.funcs[st.value.func.id], st.value, env, len(tgt.elts))
                    for t, fr in zip(tgt.elts, got):
                        env.frag[t.id] = list(fr)
                        env.cls[t.id] = self.frag_class(fr)
                elif isinstance(tgt, ast.Tuple):
                    cls = self.classify(st.value, env)
                    vals = st.value.elts if isinstance(st.value, ast.Tuple) and len(st.value.elts) == len(tgt.elts) else None
                    for i, t in enumerate(tgt.elts):
                        if isinstance(t, ast.Name):
                            c = self.classify(vals[i], env) if vals else cls
                            env.cls[t.id] = c
                            env.frag[t.id] = self.frag(vals[i], env) if vals else [('hole', RAW_CLS[c], src(st.value))]
                # subscript/attribute assignment: no string variable involved
            elif isinstance(st, ast.AugAssign) and isinstance(st.op, ast.Add) and isinstance(st.target, ast.Name):
                name = st.target.id
                env.frag[name] = env.frag.get(name, [('hole', 'rawTainted', name)]) + self.frag(st.value, env)
                env.cls[name] = join(env.cls.get(name, 'trusted'), self.classify(st.value, env))
            elif isinstance(st, ast.Expr) and isinstance(st.value, ast.Call):
                fn = dotted(st.value.func)
                if fn == 'res.write':
                    env.frag['res'] = env.frag['res'] + self.frag(st.value.args[0], env)
                elif isinstance(st.value.func, ast.Attribute) and isinstance(st.value.func.value, ast.Name) \
                        and st.value.func.value.id in env.lists:
                    name, meth = st.value.func.value.id, st.value.func.attr
                    if meth == 'append' and len(st.value.args) == 1 and not st.value.keywords:
                        env.frag[name] = env.frag[name] + self.frag(st.value.args[0], env)
                        env.cls[name] = join(env.cls.get(name, 'trusted'), self.classify(st.value.args[0], env))
                    elif meth == 'extend' and len(st.value.args) == 1 and not st.value.keywords:
                        env.frag[name] = env.frag[name] + self.join('', st.value.args[0], env)
                        env.cls[name] = join(env.cls.get(name, 'trusted'), self.classify(st.value.args[0], env))
                    else:
                        raise Unsupported('list operation %s on %s' % (meth, name))
                # logging and other calls do not build the page
            elif isinstance(st, ast.If):
                e1, e2 = env.copy(), env.copy()
                r1 = self.run(st.body, e1)
                r2 = self.run(st.orelse, e2)
                if r1 is not None and r2 is None and not st.orelse:
                    # `if test: return A` - the rest of the body is the other branch
                    rest = body[body.index(st) + 1:]
                    r_rest = self.run(rest, env.copy())
                    if r_rest is None:
                        raise Unsupported('return inside if without a return after it')
                    return self.cond_ret(st.test, r1, r_rest)
                if r1 is not None and r2 is not None:
                    return self.cond_ret(st.test, r1, r2)
                if r1 is not None or r2 is not None:
                    raise Unsupported('return inside if')
                for name in set(e1.frag) | set(e2.frag):
                    old = env.frag.get(name)
                    a, b = e1.frag.get(name, old), e2.frag.get(name, old)
                    if a is b or a == b:
                        env.frag[name] = a
                        continue
                    if old is not None and a is not None and b is not None \
                            and a[:len(old)] == old and b[:len(old)] == old:
                        env.frag[name] = old + [self.cond(st.test, a[len(old):], b[len(old):])]
                    else:
                        env.frag[name] = [self.cond(st.test, a if a is not None else [('hole', 'rawTainted', name)],
                                                    b if b is not None else [('hole', 'rawTainted', name)])]
                for name in set(e1.cls) | set(e2.cls):
                    env.cls[name] = join(e1.cls.get(name, env.cls.get(name, 'trusted')),
                                         e2.cls.get(name, env.cls.get(name, 'trusted')))
            elif isinstance(st, ast.For):
                e1 = env.copy()
                self.bind_loop(st.target, st.iter, e1)
                seen_append = [False]
                self.check_continue(st.body, seen_append)
                r = self.run(st.body, e1)
                if r is not None:
                    raise Unsupported('return inside for')
                for name, new in e1.frag.items():
                    old = env.frag.get(name)
                    if old is None or new == old:
                        continue
                    if new[:len(old)] == old:
                        env.frag[name] = old + [('star', [('alt', [], new[len(old):])])]
                    # loop-local variables stay local
            elif isinstance(st, ast.Return):
                v = st.value
                if isinstance(v, ast.Call) and dotted(v.func) == 'Response':
                    ret = self.response_arg(v, env)
                elif self.depth in self.want_tuple:
                    if not (isinstance(v, ast.Tuple) and len(v.elts) == self.want_tuple[self.depth]
                            and not any(isinstance(e, ast.Starred) for e in v.elts)):
                        raise Unsupported('helper returns something else than the %d values its caller unpacks'
                                          % self.want_tuple[self.depth])
                    ret = TupleRet(self.frag(e, env) for e in v.elts)
                elif isinstance(v, ast.Tuple):
                    ret = self.frag(v.elts[0], env)
                elif v is not None:
                    ret = self.frag(v, env)
                return ret
            elif isinstance(st, (ast.Raise, ast.Continue, ast.Pass)):
                pass
            elif isinstance(st, ast.Expr):
                pass
            else:
                raise Unsupported('statement %s' % type(st).__name__)
        return ret

    def check_continue(self, body, seen):
        for st in body:
            for n in ast.walk(st):
                if isinstance(n, ast.AugAssign) or (isinstance(n, ast.Call) and dotted(n.func) == 'res.write'):
                    seen[0] = True
                if isinstance(n, ast.Continue) and seen[0]:
                    raise Unsupported('continue after output inside a loop')

    def response_arg(self, call, env):
        if call.args:
            return self.frag(call.args[0], env)
        for kw in call.keywords:
            if kw.arg == 'data':
                return self.frag(kw.value, env)
        return []


# functions of results.py with a meaning of their own for the page model (never inlined)
NOT_HELPERS = ('html_escape', 'hbytes', 'human_methods_', 'handlers_view', 'not_modified', '__fill_default_shandlers')

PAGES = ['internal_server_error', 'bad_request', 'unauthorized', 'forbidden', 'not_found',
         'method_not_allowed', 'not_implemented', 'directory_index', 'debug_info']


def extract(tree):
    """-> {page: fragment}"""
    out = {}
    funcs = {n.name: n for n in tree.body if isinstance(n, ast.FunctionDef)}
    # module-level constants: a name bound exactly once in the whole module (no second assignment anywhere, no `global`)
    bound = {}
    for n in ast.walk(tree):
        if isinstance(n, ast.Global):
            for g in n.names:
                bound[g] = bound.get(g, 0) + 2
        elif isinstance(n, (ast.Assign, ast.AnnAssign, ast.AugAssign, ast.For, ast.NamedExpr, ast.With, ast.Import, ast.ImportFrom)):
            for ch in ast.walk(n):
                if isinstance(ch, ast.Name) and isinstance(ch.ctx, ast.Store):
                    bound[ch.id] = bound.get(ch.id, 0) + 1
    consts = {}
    for n in tree.body:
        tgt, val = None, None
        if isinstance(n, ast.Assign) and len(n.targets) == 1 and isinstance(n.targets[0], ast.Name):
            tgt, val = n.targets[0].id, n.value
        elif isinstance(n, ast.AnnAssign) and isinstance(n.target, ast.Name) and n.value is not None:
            tgt, val = n.target.id, n.value
        if tgt and bound.get(tgt) == 1 and tgt not in funcs:
            consts[tgt] = val
    for name in PAGES:
        fn = funcs[name]
        ev = PageEval({k: v for k, v in funcs.items() if k not in NOT_HELPERS}, consts)
        env = Env()
        for a in fn.args.args:
            env.cls[a.arg] = 'trusted' if a.arg in ('req', 'app', 'code') else 'tainted'
        if name == 'directory_index':
            env.cls['path'] = 'tainted'
        frag = ev.run(fn.body, env)
        if frag is None:
            raise Unsupported('no return value in ' + name)
        out[name] = simplify(frag)
    return out


def simplify(frag):
    out = []
    for n in frag:
        if n[0] == 'lit':
            if not n[1]:
                continue
            if out and out[-1][0] == 'lit':
                out[-1] = ('lit', out[-1][1] + n[1])
            else:
                out.append(n)
        elif n[0] in ('alt', 'ifdebug'):
            out.append((n[0], simplify(n[1]), simplify(n[2])))
        elif n[0] == 'star':
            out.append(('star', simplify(n[1])))
        else:
            out.append(n)
    return out


# ---- rendering to Lean / regex / stats --------------------------------------------------------

def lean_chr(c):
    o = ord(c)
    if c == "'":
        return "'\\''"
    if c == '\\':
        return "'\\\\'"
    if c == '\n':
        return "'\\n'"
    if c == '\t':
        return "'\\t'"
    if c == '\r':
        return "'\\r'"
    if o < 32 or o == 127:
        return "(Char.ofNat %d)" % o
    return "'%s'" % c


def to_lean(frag, lean_str):
    if not frag:
        return '.empty'
    parts = []
    for n in frag:
        if n[0] == 'lit':
            # explicit character lists: kernel evaluation of String.toList is very slow
            text = n[1]
            for k in range(0, len(text), 160):
                parts.append('.lit [%s]' % ','.join(lean_chr(c) for c in text[k:k + 160]))
        elif n[0] == 'hole':
            parts.append('.hole .%s' % n[1])
        elif n[0] == 'alt':
            parts.append('.alt (%s) (%s)' % (to_lean(n[1], lean_str), to_lean(n[2], lean_str)))
        elif n[0] == 'ifdebug':
            parts.append('.ifDebug (%s) (%s)' % (to_lean(n[1], lean_str), to_lean(n[2], lean_str)))
        elif n[0] == 'star':
            parts.append('.star (%s)' % to_lean(n[1], lean_str))
    res = parts[-1]
    for p in reversed(parts[:-1]):
        res = '.seq (%s) (%s)' % (p, res)
    return res


def to_regex(frag):
    out = []
    for n in frag:
        if n[0] == 'lit':
            out.append(re.escape(n[1]))
        elif n[0] == 'hole':
            # an escaped value holds no '<' and a server-side value no line break: the hole cannot swallow markup
            # of the following rows (and a page that does not fit is rejected fast instead of by exhaustive backtracking)
            out.append({'escaped': '(?:[^<]*?)', 'rawTainted': '(?:.*?)'}.get(n[1], '(?:[^\\n]*?)'))
        elif n[0] in ('alt', 'ifdebug'):
            out.append('(?:%s|%s)' % (to_regex(n[1]), to_regex(n[2])))
        elif n[0] == 'star':
            out.append('(?:%s)*' % to_regex(n[1]))
    return ''.join(out)


def holes(frag, debug_ctx='any'):
    """flat list of (cls, source, debug context) for evidence / reports"""
    out = []
    for n in frag:
        if n[0] == 'hole':
            out.append((n[1], n[2], debug_ctx))
        elif n[0] == 'alt':
            out += holes(n[1], debug_ctx) + holes(n[2], debug_ctx)
        elif n[0] == 'ifdebug':
            out += holes(n[1], 'on') + holes(n[2], 'off')
        elif n[0] == 'star':
            out += holes(n[1], debug_ctx)
    return out
