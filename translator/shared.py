"""Inventory of shared mutable state of /repo/poorwsgi (property C17).

Emits Gen/Shared.lean:
  mutables : module/class level names bound to a mutable container (dict/list/set display,
             comprehension or constructor call), and imported names that are written somewhere
  writes   : every syntactic write to one of them (subscript/attribute store, del, augmented
             assignment, mutating method call, rebinding through `global`) with the enclosing
             function
The classification of the enclosing functions (import/configuration time versus request time)
is done in Lean (Poor.Sched.configTime), so that a new writer makes an obligation fail.
"""
import ast
import os

MODULES = ["state", "headers", "session", "fieldstorage", "response", "results", "request", "digest", "wsgi"]
MUTATORS = {"append", "extend", "insert", "remove", "pop", "popitem", "clear", "update", "setdefault", "add", "discard",
            "sort", "reverse", "__setitem__", "__delitem__"}
CTORS = {"dict", "list", "set", "sorted", "defaultdict", "OrderedDict", "deque", "Counter", "bytearray"}


def is_mutable_value(node):
    if isinstance(node, (ast.Dict, ast.List, ast.Set, ast.DictComp, ast.ListComp, ast.SetComp)):
        return True
    if isinstance(node, ast.Call):
        f = node.func
        name = f.id if isinstance(f, ast.Name) else (f.attr if isinstance(f, ast.Attribute) else None)
        return name in CTORS
    return False


def base_name(node):
    """x[...]... / x.attr... -> ('x',) or ('Cls', 'attr') for a class attribute"""
    chain = []
    while isinstance(node, (ast.Subscript, ast.Attribute)):
        if isinstance(node, ast.Attribute):
            chain.append(node.attr)
        node = node.value
    if isinstance(node, ast.Name):
        return node.id, list(reversed(chain))
    return None, []


def scan_module(repo, mod):
    path = os.path.join(repo, "poorwsgi", mod + ".py")
    tree = ast.parse(open(path).read(), path)
    mutables, imported, classes = {}, set(), {}
    for node in tree.body:
        if isinstance(node, (ast.Assign, ast.AnnAssign)):
            targets = node.targets if isinstance(node, ast.Assign) else [node.target]
            if node.value is not None and is_mutable_value(node.value):
                for t in targets:
                    if isinstance(t, ast.Name) and not (t.id.startswith("__") and t.id.endswith("__")):
                        mutables[t.id] = "%s.%s" % (mod, t.id)
        elif isinstance(node, ast.ImportFrom):
            for a in node.names:
                imported.add(a.asname or a.name)
        elif isinstance(node, ast.ClassDef):
            for sub in node.body:
                if isinstance(sub, (ast.Assign, ast.AnnAssign)):
                    targets = sub.targets if isinstance(sub, ast.Assign) else [sub.target]
                    if sub.value is not None and is_mutable_value(sub.value):
                        for t in targets:
                            if isinstance(t, ast.Name):
                                name = t.id
                                if name.startswith("__") and not name.endswith("__"):
                                    pass        # private name: reported unmangled
                                classes[(node.name, name)] = "%s.%s.%s" % (mod, node.name, name)
    writes = []

    def target_object(node, cls):
        name, chain = base_name(node)
        if name is None:
            return None
        if name in mutables:
            return mutables[name]
        if name in imported:
            return "%s.%s" % (mod, name)
        # Class.attr / self.__class__.attr / cls.attr
        for (cname, attr), full in classes.items():
            if chain and chain[0] == attr and (name == cname or name == "cls"):
                return full
            if name == "self" and len(chain) >= 2 and chain[0] == "__class__" and chain[1] == attr:
                return full
        return None

    class V(ast.NodeVisitor):
        def __init__(self):
            self.stack = []
            self.cls = None
            self.globals = set()

        def fn(self):
            return "%s.%s" % (mod, ".".join(self.stack)) if self.stack else "<module>"

        def visit_ClassDef(self, node):
            self.stack.append(node.name)
            old, self.cls = self.cls, node.name
            self.generic_visit(node)
            self.cls = old
            self.stack.pop()

        def visit_FunctionDef(self, node):
            self.stack.append(node.name)
            self.generic_visit(node)
            self.stack.pop()
        visit_AsyncFunctionDef = visit_FunctionDef

        def visit_Global(self, node):
            for n in node.names:
                self.globals.add((self.fn(), n))

        def store(self, t, op):
            if isinstance(t, (ast.Tuple, ast.List)):
                for e in t.elts:
                    self.store(e, op)
                return
            if isinstance(t, (ast.Subscript, ast.Attribute)):
                obj = target_object(t, self.cls)
                if obj:
                    writes.append((obj, self.fn(), op))
            elif isinstance(t, ast.Name) and self.stack:
                if (self.fn(), t.id) in self.globals and (t.id in mutables or t.id in imported):
                    writes.append((mutables.get(t.id, "%s.%s" % (mod, t.id)), self.fn(), "rebind"))

        def visit_Assign(self, node):
            for t in node.targets:
                self.store(t, "store")
            self.generic_visit(node)

        def visit_AugAssign(self, node):
            self.store(node.target, "augstore")
            self.generic_visit(node)

        def visit_AnnAssign(self, node):
            if node.value is not None:
                self.store(node.target, "store")
            self.generic_visit(node)

        def visit_Delete(self, node):
            for t in node.targets:
                self.store(t, "del")
            self.generic_visit(node)

        def visit_Call(self, node):
            f = node.func
            if isinstance(f, ast.Attribute) and f.attr in MUTATORS:
                obj = target_object(f.value, self.cls) if isinstance(f.value, (ast.Subscript, ast.Attribute)) else None
                if obj is None and isinstance(f.value, ast.Name):
                    if f.value.id in mutables:
                        obj = mutables[f.value.id]
                    elif f.value.id in imported and f.attr in MUTATORS:
                        obj = None      # a method call on an imported name: only counted if it is a known shared object
                if obj is None and isinstance(f.value, (ast.Subscript, ast.Attribute)):
                    obj = target_object(f.value, self.cls)
                if obj:
                    writes.append((obj, self.fn(), f.attr))
            self.generic_visit(node)
    V().visit(tree)
    # imported names only count when they are written
    written_imports = sorted({o for o, _, _ in writes if o.split(".", 1)[1] in imported and o.startswith(mod + ".")
                              and o not in mutables.values()})
    return sorted(mutables.values()) + sorted(classes.values()) + written_imports, writes


ENTRY = ["wsgi.Application.__call__"]


def reachable(repo):
    """functions that can run while a request is served: a syntactic call graph over the package, by simple
    name (over-approximation), from Application.__call__"""
    funcs = {}          # qualname -> ast node
    by_name = {}        # simple name -> [qualname]
    classes = {}        # class name -> [qualname of __init__/__new__]
    props = {}          # property name -> [qualname]
    bases = {}          # class name -> base class names
    dunders = []
    for mod in MODULES:
        path = os.path.join(repo, "poorwsgi", mod + ".py")
        tree = ast.parse(open(path).read(), path)
        for node in tree.body:
            if isinstance(node, (ast.FunctionDef, ast.AsyncFunctionDef)):
                q = "%s.%s" % (mod, node.name)
                funcs[q] = node
                by_name.setdefault(node.name, []).append(q)
            elif isinstance(node, ast.ClassDef):
                bases[node.name] = [b.id if isinstance(b, ast.Name) else getattr(b, "attr", "") for b in node.bases]
                for sub in node.body:
                    if isinstance(sub, (ast.FunctionDef, ast.AsyncFunctionDef)):
                        q = "%s.%s.%s" % (mod, node.name, sub.name)
                        funcs[q] = sub
                        if sub.name not in ("__init__", "__new__"):      # constructors: through the class name
                            by_name.setdefault(sub.name, []).append(q)
                        if sub.name in ("__init__", "__new__"):
                            classes.setdefault(node.name, []).append(q)
                        elif sub.name.startswith("__") and sub.name.endswith("__") and sub.name != "__del__":
                            dunders.append(q)
                        for dec in sub.decorator_list:
                            d = ast.unparse(dec)
                            if d == "property" or d.endswith(".setter") or d.endswith(".getter"):
                                props.setdefault(sub.name, []).append(q)
    seen, todo = set(), [e for e in ENTRY if e in funcs]
    if not todo:
        raise ValueError("entry point %r not found" % (ENTRY,))
    first = True
    while todo:
        q = todo.pop()
        if q in seen:
            continue
        seen.add(q)
        if first:
            todo.extend(dunders)       # implicit protocol methods of the objects a request handles
            first = False
        for node in ast.walk(funcs[q]):
            if isinstance(node, ast.Call):
                f = node.func
                name = f.id if isinstance(f, ast.Name) else (f.attr if isinstance(f, ast.Attribute) else None)
                if name is None:
                    continue
                mangled = name
                todo.extend(by_name.get(name, []))
                # a constructor call runs the __init__ of the class and of its ancestors (super().__init__)
                anc, stack = [], [name]
                while stack:
                    c = stack.pop()
                    if c in bases and c not in anc:
                        anc.append(c)
                        stack.extend(bases[c])
                for c in anc:
                    todo.extend(classes.get(c, []))
                # private names are written __x inside the class and called as self.__x
                todo.extend(by_name.get(mangled, []))
            elif isinstance(node, ast.Attribute):
                todo.extend(props.get(node.attr, []))
    return sorted(seen)


def gen_shared(repo):
    muts, writes = [], []
    for mod in MODULES:
        m, w = scan_module(repo, mod)
        muts += m
        writes += w
    reach = reachable(repo)
    from translator.gen import lean_str, HEADER
    lines = [HEADER, "namespace Poor.Gen.Shared", "",
             "/-- module and class level mutable containers of the package (and imported ones it writes) -/",
             "def mutables : List String := [" + ", ".join(lean_str(x) for x in muts) + "]", "",
             "/-- every syntactic write to one of them: (object, enclosing function, operation) -/",
             "def writes : List (String × String × String) := ["
             + ",\n  ".join("(%s, %s, %s)" % (lean_str(o), lean_str(f), lean_str(op)) for o, f, op in writes) + "]", "",
             "/-- functions that can run while a request is served (call graph from Application.__call__) -/",
             "def requestReachable : List String := [" + ", ".join(lean_str(x) for x in reach) + "]", "",
             "end Poor.Gen.Shared", ""]
    return "\n".join(lines), {"mutables": len(muts), "writes": len(writes), "reachable": len(reach)}
