#!/usr/bin/env python3
"""usage: tools/retest_parallel.py [-j N] [seeded/<id> ...]
Re-run the quick check of stored seeded changes (default: all of seeded/C*) against the current machinery, N at a time.
Each worker gets its own copy of /verif (with its lake build) and its own scratch worktree of /repo under /tmp/pr
(VERIF_REPO points the check at it); /repo itself and /verif are left alone.  Everything under /tmp/pr is removed at
the end.  Output: one line per change, like tools/retest_mutants.sh."""
import os
import queue
import shutil
import subprocess
import sys
import threading

VERIF = os.path.dirname(os.path.dirname(os.path.abspath(__file__)))
REPO = "/repo"
BASE = "/tmp/pr"


def sh(*cmd, **kw):
    return subprocess.run(cmd, capture_output=True, text=True, **kw)


def main():
    args = sys.argv[1:]
    n = 6
    if args[:1] == ["-j"]:
        n = int(args[1])
        args = args[2:]
    dirs = [a.rstrip("/") for a in args] or sorted(
        os.path.join("seeded", d) for d in os.listdir(os.path.join(VERIF, "seeded")) if d.startswith("C"))
    if sh("git", "-C", REPO, "diff", "--quiet").returncode:
        print("/repo has uncommitted changes")
        return 2
    todo = queue.Queue()
    for d in dirs:
        todo.put(d)
    shutil.rmtree(BASE, ignore_errors=True)
    sh("git", "-C", REPO, "worktree", "prune")
    results = {}
    lock = threading.Lock()

    def worker(k):
        wdir = os.path.join(BASE, "w%d" % k)
        verif, repo = os.path.join(wdir, "verif"), os.path.join(wdir, "repo")
        os.makedirs(wdir)
        sh("rsync", "-a", "--exclude", ".git", "--exclude", "replays", "--exclude", "seeded", VERIF + "/", verif + "/")
        os.makedirs(os.path.join(verif, "replays"), exist_ok=True)
        sh("git", "-C", REPO, "worktree", "add", "--detach", repo, "HEAD")
        env = dict(os.environ, VERIF_REPO=repo, PYTHONDONTWRITEBYTECODE="1")
        while True:
            try:
                d = todo.get_nowait()
            except queue.Empty:
                break
            ident = os.path.basename(d)
            prop = ident.split("-")[0]
            patch = os.path.join(VERIF, d, "patch.diff")
            if sh("git", "-C", repo, "apply", "--check", patch).returncode:
                line = "patch no longer applies"
            else:
                sh("git", "-C", repo, "apply", patch)
                out = sh(os.path.join(verif, "check"), prop, cwd=verif, env=env).stdout
                line = " ".join(ln[:200] for ln in out.splitlines() if ln.startswith("VIOLATION") or "quick:" in ln)
                sh("git", "-C", repo, "checkout", "--", ".")
            with lock:
                results[ident] = line
                print("%s: %s" % (ident, line), flush=True)
        sh("git", "-C", REPO, "worktree", "remove", "--force", repo)

    threads = [threading.Thread(target=worker, args=(k,)) for k in range(n)]
    for t in threads:
        t.start()
    for t in threads:
        t.join()
    shutil.rmtree(BASE, ignore_errors=True)
    sh("git", "-C", REPO, "worktree", "prune")
    import json
    neutral = [os.path.basename(d) for d in dirs
               if json.load(open(os.path.join(VERIF, d, "meta.json"))).get("neutralised")]
    missed = [i for i, ln in results.items() if "VIOLATION" not in ln and i not in neutral]
    if neutral:
        print("== neutralised by a later repair (not counted): %s" % neutral)
    weak = [i for i, ln in results.items() if "no-failing-input-found" in ln]
    print("== %d changes, %d not caught %s, %d without a failing input %s" % (len(results), len(missed), missed, len(weak), weak))
    return 1 if missed else 0


if __name__ == "__main__":
    sys.exit(main())
