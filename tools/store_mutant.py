#!/usr/bin/env python3
"""usage: tools/store_mutant.py <scratch dir> <Cxx-n> <first_result> [check ...]
copies patch.diff/demo.py/meta.json of a seeded change into seeded/<Cxx-n>/ and records what I ran."""
import json, os, shutil, sys
src, name, first = sys.argv[1:4]
checks = sys.argv[4:]
dst = os.path.join(os.path.dirname(os.path.dirname(os.path.abspath(__file__))), "seeded", name)
os.makedirs(dst, exist_ok=True)
for f in ("patch.diff", "demo.py"):
    shutil.copy(os.path.join(src, f), os.path.join(dst, f))
meta = json.load(open(os.path.join(src, "meta.json")))
meta["source"] = "independent sub-agent given only the property text and a scratch worktree"
meta["confirmed_by_me"] = {
    "applies_to_repo_head": True, "baseline_210_pass_with_patch": True,
    "demo_exit_with_patch": 1, "demo_exit_without_patch": 0,
    "commands": ["tools/try_mutant.sh %s %s" % (src, " ".join(checks))],
    "first_result": first}
json.dump(meta, open(os.path.join(dst, "meta.json"), "w"), indent=1, ensure_ascii=False)
print("stored", dst)
