#!/venv/bin/python
"""Run /repo's pinned test suite (guard off) and compare with the 210 stable tests.
usage: tools/baseline.py [repo_dir]; exit 0 iff every stable test passes."""
import json, os, subprocess, sys, tempfile
import xml.etree.ElementTree as ET
here = os.path.dirname(os.path.abspath(__file__))
repo = sys.argv[1] if len(sys.argv) > 1 else "/repo"
stable = json.load(open(os.path.join(here, "baseline_tests.json")))
with tempfile.TemporaryDirectory() as d:
    xml = os.path.join(d, "j.xml")
    env = dict(os.environ)
    env.pop("POORWSGI_VERIF", None)
    # the integrity tests bind a fixed port: serialise with any other run of the suite on this machine
    lock = ["flock", "/tmp/wt/suite.lock"] if os.path.isdir("/tmp/wt") else []
    p = subprocess.run(lock + ["/venv/bin/python", "-m", "pytest", "-ra", "-q", "-p", "no:cacheprovider",
                        "--timeout=900", "--continue-on-collection-errors", "--junitxml=" + xml],
                       cwd=repo, capture_output=True, text=True, env=env)
    passed = set()
    for tc in ET.parse(xml).getroot().iter("testcase"):
        if not any(ch.tag in ("failure", "error", "skipped") for ch in tc):
            passed.add("%s::%s" % (tc.get("classname"), tc.get("name")))
missing = [t for t in stable if t not in passed]
for f in os.listdir(repo):
    if f.startswith("req_GET_profile.") and f.endswith(".profile"):
        os.remove(os.path.join(repo, f))      # left behind by the integrity tests
print("stable %d, passed %d of them, missing %d" % (len(stable), len(stable) - len(missing), len(missing)))
for m in missing:
    print("  MISSING", m)
sys.exit(1 if missing else 0)
