#!/venv/bin/python
"""debug helper: tools/diffs.py C01 [n] - list model/impl disagreements of a quick generation"""
import sys, os, random, importlib
ROOT = os.path.dirname(os.path.dirname(os.path.abspath(__file__)))
sys.path.insert(0, ROOT)
from harness import core
prop = sys.argv[1]
n = int(sys.argv[2]) if len(sys.argv) > 2 else 15
mod = importlib.import_module("harness." + prop.lower())
rng = random.Random("%s/quick/0" % prop)
cases = list(mod.generate(rng, "quick"))
per = [(mod.to_model(c) if hasattr(mod, "to_model") else [c]) for c in cases]
out = core.run_driver([l for ls in per for l in ls])
it = iter(out)
shown = 0
tot = 0
for c, ls in zip(cases, per):
    m = " ".join(next(it) for _ in ls)
    if not ls:
        continue
    if hasattr(mod, "canon_model"):
        m = mod.canon_model(m)
    i = mod.observe(c)
    if i != m and "unsupported" not in m and i != "unsupported":
        tot += 1
        if shown < n:
            shown += 1
            print("CASE ", c[:400]); print("  impl ", i[:500]); print("  model", m[:500])
print("total disagreements", tot, "of", len(cases))
