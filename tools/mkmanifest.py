#!/usr/bin/env python3
"""Regenerate MANIFEST.json from the table below (keeps it valid at all times)."""
import json, os
ROOT = os.path.dirname(os.path.dirname(os.path.abspath(__file__)))
props = [json.loads(l) for l in open(os.path.join(ROOT, "properties.jsonl"))]
ALL = [p["id"] for p in props]

CLAIMED = {
 "C06": dict(section="5/C06", technique="Lean 4 theorems (induction over write histories; case analysis of the window arithmetic) + differential correspondence with poorwsgi.response",
    text="Proof: C06_write_history (every write history) and C06_emitted (every known-length representation, every range list) are kernel-checked theorems about Poor.Range; the model is tied to response.py by a differential run of real Response/FileObj/Generator objects against the compiled model, and an independent oracle checks Content-Length == bytes sent on the implementation (incl. built-in pages and no-body statuses through a real Application).",
    note="Trusted: Lean kernel (axioms propext, Classical.choice, Quot.sound), hand-written model Poor.Range, harness/c06.py+c07.py, CPython io/os. Non-seekable streams are modelled as unknown-size; 204/304 emission is exercised on the implementation only."),
 "C07": dict(section="5/C07", technique="Lean 4 theorems (window_spec by omega, rangeGen_spec by induction over chunk lists) + differential correspondence",
    text="Proof: C07 (full statement) — for every known-length representation (buffer, seekable file at any offset, chunk generator under every chunking), every valid single range and any further ranges, respond = the RFC 9110 answer (206+slice+Content-Range+length, or 416), and 200 full without a range. Unbounded in L, first, last, chunking. Tied to the code by exhaustive small-L differential runs over all representation kinds plus an end-to-end Range header path through a real Application.",
    note="Trusted: Lean kernel, model Poor.Range/HeaderValue.parseRange, harness/c07.py, CPython io. Generator responses assume declared length == total chunk length."),
 "C09": dict(section="5/C09", technique="Lean 4 theorems (conservation invariant lifted over arbitrary call histories by induction; fun_induction over the readline loop) + differential correspondence",
    text="Proof: C09 (full statement) about Poor.Reader — conservation (results ++ pending = first n bytes) for every stream, declared length, block size, short-read script and call history; completeness (b'' only when nothing is owed); budget invariant (every underlying request <= bytes left of the declared length; position + budget = n); no CRLF inside a readline result; cut reason; bounded underlying reads per call. The model is tied to request.py CachedInput by running both on the same histories (results, per-call read counts and the exact sequence of underlying request sizes are compared).",
    note="Trusted: Lean kernel, model Poor.Reader, harness/c09.py with its instrumented stream. An empty underlying read is end of input; the blocking/wall-clock behaviour of the real stream is outside the model."),
 "C16": dict(section="5/C16", technique="Lean 4 theorems (Nat division lemmas for the T-aligned windows; injective-hash hypothesis; decide witness for the false clause) + differential correspondence under an injected clock",
    text="Proof: valid_iff / valid_of_lt / invalid_of_ge for every T>0 and t0<=t1 (exact ticks), C16_windows for any injective hash, C16_none (None and 0), C16_separation (acceptance forces equal formatted texts). The property's separation clause at full strength is proved FALSE of the code (C16_separation_full_false, delimiter-free concatenation) and recorded as a known finding; the check reports any other foreign acceptance as a violation.",
    note="Trusted: Lean kernel, model Poor.Token, harness/c16.py (clock injected by rebinding poorwsgi.session.time). Hash injectivity is a theorem hypothesis; float rounding of time()/timeout is not modelled (exact microsecond ticks)."),
 "C14": dict(section="5/C14", technique="Lean 4 theorems (refinement of the pair list to an ordered multimap keyed by the case-normalised name; UTF-8/latin-1 round trip from core's utf8Decode?_utf8Encode) + differential correspondence after every step",
    text="Proof: per-operation refinement lemmas (getItem/getAll/delItem/addHeader/setItem/add commute with the abstraction to a key-normalised multimap) and the user-level corollaries (case-insensitive lookups, assignment/deletion affect all entries of the name and nothing else with order preserved, add refuses duplicates except Set-Cookie in any casing, insertion order) for every state, hence after every operation sequence; C14_transcode_bytes/roundtrip for every Unicode string. Tied to headers.py by op-sequence correspondence with the items compared after every step, plus an independent reference multimap as oracle.",
    note="Trusted: Lean kernel, model Poor.Headers (+ wsgiref _formatparam), harness/c14.py. Names are US-ASCII tokens as the class requires (str.lower modelled as ASCII lower-casing); lone surrogates are outside the model."),
 "C15": dict(section="5/C15", technique="translator (Python ast -> page templates + escape table, regenerated every run) + Lean 4 theorems (escape_safe; post_sound by induction over the rendering relation; decide +kernel over the generated templates) + template conformance + html.parser marker search",
    text="Proof: C15 — for every built-in page template extracted from results.py, every debug setting, every content of every request-derived hole (escaped through the generated table) and every loop count, no client-controlled character is read inside a tag or changes the tokenizer state (post_sound + pages_safe over Gen.Pages, escape_safe over Gen.Escape). The templates are regenerated from the source on every run, so removing an html_escape or adding a raw request-derived hole breaks the decide obligation; real pages are matched against the templates (conformance) and searched with marker payloads.",
    note="Trusted: Lean kernel; translator/pages.py incl. its taint tables (fails closed: unknown expressions are tainted/raw); the 4-state lexical HTML model (no comments/raw-text; checked against html.parser dynamically); trusted server-side holes assumed free of < > \" '."),
 "C20": dict(section="5/C20", technique="translator (debug guards and diagnostic holes of the page templates) + Lean 4 theorems (diagFree_sound by induction over renderings; decide +kernel over generated templates; debug precedence) + secret-token search on the real application",
    text="Proof: debug_precedence (override decides when non-empty, any letter case), C20_pages (with debug off no rendering of any ungated built-in page contains a character from a diagnostic hole), over templates regenerated from results.py each run; the dispatcher gate for /debug-info is covered by the request model (C20_route, once PoorModel.Wsgi is linked) and exercised on the implementation with secret tokens at every failure position, via request environ and process environment.",
    note="Trusted: Lean kernel; translator's diagnostic classification (handler[...], traceback lines, exc_*, server_software, uri_rule) and guard extraction; Poor.Debug.effectiveDebug; ASCII lower-casing for the 'on' comparison."),
 "C01": dict(section="5/C01", technique="Lean 4 theorems (generic invariant of the request ladder proved once by case analysis + induction over the after-hook loop, instantiated for well-formedness and for non-declining programs; decide over the generated reason table) + differential correspondence + environ fuzzing oracle",
    text="Proof: the model of __request__ (Poor.Wsgi.run) is a total function into answered(one start_response call)|silent for every configuration, program (user callables are a universally quantified oracle), construction outcome and dispatch exit; C01_wellformed: every answer has a status from the generated reason table with that reason, three digits, and latin-1 (str,str) headers; C01_silent_reason: if no callable declines or raises a connection-level error, an answer is always produced. Tied to wsgi.py/response.py/results.py by running the real Application with recording callables on the same (configuration, program) lines and comparing trace, status, headers and body; plus arbitrary environ dicts against a richer app (oracle only).",
    note="Trusted: Lean kernel; hand-written model Poor.Wsgi/Poor.Response; Gen.Reasons (regenerated); harness/wsgi_common.py. Request construction is modelled by the stage at which it raises; 'bounded time' = totality of the model + C09; lazily iterated user generators are outside the model."),
 "C03": dict(section="5/C03", technique="Lean 4 theorems (induction over the hook lists: runBefore_all/stop, dispatch_order/stopped, runAfter_same/replace/fail) + differential correspondence on self-recorded hook traces + trace-shape oracle",
    text="Proof: for every program and every number of hooks, the before hooks run once each in registration order at the head of every dispatch exit (hit, 405, 404, 403, file, directory, debug page, default), stop at the first that raises with no later hook and no endpoint; the after-hook loop runs on whatever response preAfter produced, each hook receiving the previous result, the client receiving the last result, and a failing hook (exception or garbage) ends the loop with the error response. Tied to wsgi.py by comparing the self-recorded traces of real hooks with the model's trace on the product of hook behaviours x request kinds.",
    note="Trusted: Lean kernel, model Poor.Wsgi (the 11 handler_from_before call sites are one runBefore step in `dispatch`; the correspondence run is what ties that to the source), harness/c03.py."),
 "C04": dict(section="5/C04", technique="Lean 4 theorems (equational characterisation of the exception ladder by simp/case analysis; first_matching_handler from List.find?) + differential correspondence + reference resolver oracle",
    text="Proof: abort_user_handler / abort_builtin_page / abort_not_implemented / abort_with_response / abort_special, first_matching_handler + exception_user_handler / exception_unhandled, status_handler_failure / status_handler_garbage / exception_handler_failure (degrade to the 500 page), C04_after_independent (the conversion takes no after program and does not change with nAfter) - for every configuration and program. Correspondence over abort codes x handler tables x class hierarchy x handler orders x return shapes x nested failures to depth 3 x after hooks; oracle = independent resolver written from the property text, all 9 methods.",
    note="Trusted: Lean kernel, model Poor.Wsgi, class hierarchy as a fixed isinstance relation on ids, harness/c04.py. abort(0) declines, abort(200) is an empty 204 (make_response's documented special cases)."),
 "C05": dict(section="5/C05", technique="Lean 4 theorems (case analysis of to_response/make_response and of emission) + differential correspondence + direct value-vs-wire oracle",
    text="Proof: C05 - C05_headers (for every response object of every class: emitted headers = the object's headers, unchanged and in order, plus Content-Type/Content-Length only when absent, never for 204/304/no-content; body = the object's chunks in order) and the value cases (str/bytes, JSON text for dict/list incl. {} and [], None -> 204, iterables, tuple form, junk -> ResponseError, response objects untouched). Tied to response.py by emitting real values and response objects of every class and comparing status line, ordered header list and body bytes.",
    note="Trusted: Lean kernel, model Poor.Response, harness/c05.py; JSON fidelity rests on json.loads(json.dumps(v)) == v (sampled by the oracle)."),
}

def check(pid):
    c = CLAIMED[pid]
    return {
        "property_id": pid,
        "quick_cmd": "./check %s --tier quick" % pid,
        "thorough_cmd": "./check %s --tier thorough" % pid,
        "evidence_file": "evidence/%s.json" % pid,
        "replay_cmd_template": "./check %s --replay {path}" % pid,
        "engine": "lean4-proof+correspondence",
        "level_claimed": {"category": "proof", "text": c["text"], "design_ref": c["section"]},
        "level_note": c["note"],
        "technique": c["technique"],
    }

NA_REASON = {}
man = {
 "version": 1,
 "setup_cmd": "./setup.sh",
 "hooks": {"guard": "POORWSGI_VERIF", "enable": "no source hooks are needed: clocks, streams and handlers are injected from outside (see DESIGN.md section 7)",
           "baseline_off_cmd": "cd /repo && /venv/bin/python -m pytest -ra -q -p no:cacheprovider --timeout=900 --continue-on-collection-errors",
           "source_commits": [], "add_only": True},
 "engines": [{"name": "lean4-proof+correspondence", "path": "lean/ + harness/ + translator/",
              "serves_properties": sorted(CLAIMED),
              "kind_free_text": "Lean 4 theorems about an executable model; model tied to /repo by a translator (data) and a differential correspondence run (logic); independent property oracle on the implementation as failing-input search"}],
 "checks": [check(p) for p in ALL if p in CLAIMED],
 "not_applicable": [{"property_id": p, "reason": NA_REASON.get(p, "check not built yet in this round (model and harness pending; see DESIGN.md section 5)")}
                    for p in ALL if p not in CLAIMED],
 "notes": "Every check: regenerate Gen/*.lean from /repo, lake build of the property's theorems, axiom audit, differential correspondence, property oracle on the implementation. See DESIGN.md.",
}
json.dump(man, open(os.path.join(ROOT, "MANIFEST.json"), "w"), indent=1)
print("claimed", sorted(CLAIMED))
