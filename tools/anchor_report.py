#!/usr/bin/env python3
"""Print, per property, the lines of the anchored functions that the last run of its check never reached
(from evidence/<id>.json), with the source text.  usage: tools/anchor_report.py [Cxx ...]"""
import json
import os
import sys

ROOT = os.path.dirname(os.path.dirname(os.path.abspath(__file__)))
ids = sys.argv[1:] or ["C%02d" % i for i in range(1, 21)]
src = {}
for pid in ids:
    try:
        ev = json.load(open(os.path.join(ROOT, "evidence", pid + ".json")))
    except OSError:
        continue
    cov = ev["coverage"].get("anchored_code_lines_reached") or {}
    print("== %s (%s): %s of %s lines of the anchored functions reached" % (pid, ev["tier"], cov.get("hit"), cov.get("lines")))
    for item, v in sorted(cov.get("functions", {}).items()):
        if v.get("missing"):
            print("   %s: not found in the current tree" % item)
            continue
        if not v["missed"]:
            continue
        rel = item.split(":")[0]
        if rel not in src:
            src[rel] = open("/repo/" + rel, encoding="utf-8").read().splitlines()
        print("   %s: %d/%d" % (item, v["hit"], v["lines"]))
        for ln in v["missed"]:
            print("      %5d  %s" % (ln, src[rel][ln - 1].rstrip()[:110]))
