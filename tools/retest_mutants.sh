#!/bin/sh
# re-run the quick check of every stored seeded change against the current machinery
# usage: tools/retest_mutants.sh [dir ...]   (default: all of seeded/*)
cd /verif || exit 2
git -C /repo diff --quiet || { echo "/repo has uncommitted changes"; exit 2; }
dirs="$@"; [ -z "$dirs" ] && dirs=$(ls -d seeded/C*/)
for d in $dirs; do
  d=${d%/}; id=$(basename $d); prop=${id%%-*}
  if ! git -C /repo apply --check /verif/$d/patch.diff 2>/dev/null; then echo "$id: patch no longer applies"; continue; fi
  git -C /repo apply /verif/$d/patch.diff
  out=$(./check $prop 2>&1 | grep -E "^VIOLATION|quick:" | cut -c1-200 | tr '\n' ' ')
  git -C /repo checkout -- .
  neutral=$(python3 -c "import json,sys; print('neutralised (not counted) ' if json.load(open('/verif/$d/meta.json')).get('neutralised') else '')" 2>/dev/null)
  echo "$id: $neutral$out"
done
