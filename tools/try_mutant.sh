#!/bin/sh
# usage: tools/try_mutant.sh <dir with patch.diff demo.py> <Cxx> [more checks...]
# applies the patch to /repo, runs demo + baseline + the checks, then undoes it.
d=$1; shift
cd /repo || exit 2
git diff --quiet || { echo "/repo has uncommitted changes"; exit 2; }
rm -rf /tmp/demo_run; mkdir -p /tmp/demo_run; cp $d/demo.py /tmp/demo_run/
(cd /tmp/demo_run && PYTHONPATH=/repo /venv/bin/python demo.py >/dev/null 2>&1); echo "demo on clean tree: exit $?"
git apply $d/patch.diff || { echo "patch does not apply"; exit 2; }
(cd /tmp/demo_run && PYTHONPATH=/repo /venv/bin/python demo.py >/tmp/demo_out.txt 2>&1); echo "demo with patch: exit $?"; tail -3 /tmp/demo_out.txt
/verif/tools/baseline.py | tail -3
for c in "$@"; do (cd /verif && ./check $c 2>&1 | grep -E "^VIOLATION|^KNOWN|quick:|first:" | cut -c1-420); done
git checkout -- . ; git status --short | grep -v '^??'
