#!/usr/bin/env python3
"""usage: tools/retest_refactors.py
Apply each behaviour-preserving change stored under seeded/REFACTOR-* and seeded/ADDITIVE-* to a scratch worktree of /repo
and run all 20 quick checks against it (one worker per change, each with its own copy of /verif): every check must stay
silent.  Everything under /tmp/prr is removed at the end."""
import os
import shutil
import subprocess
import sys
import threading

VERIF = os.path.dirname(os.path.dirname(os.path.abspath(__file__)))
REPO = "/repo"
BASE = "/tmp/prr"
PROPS = ["C%02d" % i for i in range(1, 21)]


def sh(*cmd, **kw):
    return subprocess.run(cmd, capture_output=True, text=True, **kw)


def main():
    dirs = sorted(d for d in os.listdir(os.path.join(VERIF, "seeded")) if d.startswith(("REFACTOR-", "ADDITIVE-")))
    shutil.rmtree(BASE, ignore_errors=True)
    sh("git", "-C", REPO, "worktree", "prune")
    noisy = {}
    lock = threading.Lock()

    def worker(name):
        wdir = os.path.join(BASE, name)
        verif, repo = os.path.join(wdir, "verif"), os.path.join(wdir, "repo")
        os.makedirs(wdir)
        sh("rsync", "-a", "--exclude", ".git", "--exclude", "replays", "--exclude", "seeded", VERIF + "/", verif + "/")
        os.makedirs(os.path.join(verif, "replays"), exist_ok=True)
        sh("git", "-C", REPO, "worktree", "add", "--detach", repo, "HEAD")
        patch = os.path.join(VERIF, "seeded", name, "patch.diff")
        if sh("git", "-C", repo, "apply", patch).returncode:
            with lock:
                noisy[name] = ["patch no longer applies"]
                print("%s: patch no longer applies" % name, flush=True)
        else:
            env = dict(os.environ, VERIF_REPO=repo, PYTHONDONTWRITEBYTECODE="1")
            bad = []
            for p in PROPS:
                r = sh(os.path.join(verif, "check"), p, cwd=verif, env=env)
                if r.returncode != 0 or "VIOLATION" in r.stdout:
                    bad.append(p + ": " + " ".join(ln[:160] for ln in r.stdout.splitlines()
                                                    if ln.startswith(("VIOLATION", "  broken", "TOOL")))[:400])
            with lock:
                noisy[name] = bad
                print("%s: %s" % (name, "all 20 checks silent" if not bad else "; ".join(bad)), flush=True)
        sh("git", "-C", REPO, "worktree", "remove", "--force", repo)

    threads = [threading.Thread(target=worker, args=(d,)) for d in dirs]
    for t in threads:
        t.start()
    for t in threads:
        t.join()
    shutil.rmtree(BASE, ignore_errors=True)
    sh("git", "-C", REPO, "worktree", "prune")
    return 1 if any(noisy.values()) else 0


if __name__ == "__main__":
    sys.exit(main())
