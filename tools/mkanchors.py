#!/usr/bin/env python3
"""Map the line anchors of properties.jsonl (line numbers of the pinned snapshot of /repo) to the functions
that enclose them, so that coverage of the anchored code can be reported on the *current* tree, whatever
the line numbers have become.  Output: harness/anchor_functions.json (committed; properties and snapshot are fixed).

usage: tools/mkanchors.py [base-commit]   (default: the `snapshot` commit of /repo)"""
import ast
import json
import os
import re
import subprocess
import sys

ROOT = os.path.dirname(os.path.dirname(os.path.abspath(__file__)))


def base_commit():
    out = subprocess.run(["git", "-C", "/repo", "log", "--format=%H %s"], capture_output=True, text=True).stdout
    for line in out.splitlines():
        h, s = line.split(" ", 1)
        if s.strip() == "snapshot":
            return h
    return out.splitlines()[-1].split()[0]


def ranges(where):
    """'poorwsgi/wsgi.py:34 re_filter, 149-173 x; poorwsgi/request.py:35-62, 384-480' -> [(file, a, b)]"""
    out, cur = [], None
    for part in re.split(r"[;,]", where):
        part = part.strip()
        m = re.match(r"(poorwsgi/\w+\.py):(.*)", part)
        if m:
            cur, part = m.group(1), m.group(2).strip()
        if cur is None:
            continue
        for a, b in re.findall(r"(?<![\w.])(\d+)(?:-(\d+))?(?![\w.])", part):
            out.append((cur, int(a), int(b or a)))
    return out


def enclosing(tree, a, b):
    """qualified names of the innermost functions overlapping lines a..b (module-level lines: none)"""
    found = set()

    def walk(node, prefix):
        for ch in ast.iter_child_nodes(node):
            if isinstance(ch, (ast.FunctionDef, ast.AsyncFunctionDef, ast.ClassDef)):
                q = prefix + ch.name
                lo = min([ch.lineno] + [d.lineno for d in ch.decorator_list])
                hi = ch.end_lineno
                if hi >= a and lo <= b:
                    inner_before = len(found)
                    walk(ch, q + ".")
                    if len(found) == inner_before and not isinstance(ch, ast.ClassDef):
                        found.add(q)
            else:
                walk(ch, prefix)
    walk(tree, "")
    return found


def main():
    base = sys.argv[1] if len(sys.argv) > 1 else base_commit()
    trees = {}
    out = {}
    for line in open(os.path.join(ROOT, "properties.jsonl")):
        p = json.loads(line)
        funcs = set()
        for kind in ("mechanism", "state"):
            for item in p["anchors"].get(kind, []):
                for f, a, b in ranges(item.get("where", "")):
                    if f not in trees:
                        src = subprocess.run(["git", "-C", "/repo", "show", "%s:%s" % (base, f)],
                                             capture_output=True, text=True).stdout
                        trees[f] = ast.parse(src)
                    for q in enclosing(trees[f], a, b):
                        funcs.add("%s:%s" % (f, q))
        out[p["id"]] = sorted(funcs)
    json.dump({"base": base, "functions": out}, open(os.path.join(ROOT, "harness", "anchor_functions.json"), "w"), indent=1)
    for k, v in out.items():
        print(k, len(v), v)


if __name__ == "__main__":
    main()
