#!/usr/bin/env python3
"""Which executable lines of poorwsgi/*.py does NO check reach?  Runs every quick check with VERIF_COVDUMP and
prints, per function, the lines never executed by any of them (a diagnostic for the generators).
usage: tools/package_report.py [--reuse]"""
import json, os, subprocess, sys, glob
ROOT = os.path.dirname(os.path.dirname(os.path.abspath(__file__)))
out = "/tmp/verif_covdump"
os.makedirs(out, exist_ok=True)
if "--reuse" not in sys.argv:
    for i in range(1, 21):
        pid = "C%02d" % i
        env = dict(os.environ, VERIF_COVDUMP="%s/%s.json" % (out, pid))
        subprocess.run([os.path.join(ROOT, "check"), pid], env=env, stdout=subprocess.DEVNULL, stderr=subprocess.DEVNULL)
hits = {}
for f in glob.glob(out + "/C*.json"):
    for k, v in json.load(open(f)).items():
        hits.setdefault(k, set()).update(v)


def codes(code, acc):
    for c in code.co_consts:
        if hasattr(c, "co_code"):
            acc.append(c)
            codes(c, acc)
    return acc


for path in sorted(glob.glob("/repo/poorwsgi/*.py")):
    src = open(path, encoding="utf-8").read()
    lines = src.splitlines()
    top = compile(src, path, "exec")
    got = hits.get(path, set())
    tot = miss = 0
    report = []
    for c in codes(top, []):
        ls = {ln for _, _, ln in c.co_lines() if ln}
        ls.discard(c.co_firstlineno)
        for inner in codes(c, []):
            ls -= {ln for _, _, ln in inner.co_lines() if ln}
        m = sorted(ls - got)
        tot += len(ls)
        miss += len(m)
        if m:
            report.append((c.co_qualname, len(ls), m))
    print("== %s: %d of %d function-body lines never reached" % (os.path.basename(path), miss, tot))
    for q, n, m in report:
        print("   %s (%d/%d missed)" % (q, len(m), n))
        for ln in m:
            print("      %5d  %s" % (ln, lines[ln - 1].rstrip()[:110]))
