#!/bin/sh
# Build the Lean project (model, proofs, driver) offline from files on disk.
set -e
cd "$(dirname "$0")"
/venv/bin/python -c "
import sys; sys.path.insert(0, '.')
from translator import gen
print(gen.regenerate('${VERIF_REPO:-/repo}', 'lean/PoorModel/Gen'))"
cd lean && lake build
